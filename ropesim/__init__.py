"""ropesim -- deterministic simulation with fault injection for python-rope/rope.

See /verif/DESIGN.md.  Everything here is driven by one integer (VERIF_SEED);
every run is a seeded, exactly replayable execution of the *real* rope code
under seams the simulator owns (file-system commands, task-handle observers,
wall clock, file mtimes, data-file I/O, process death, an external editor).
"""
