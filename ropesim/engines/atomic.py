"""C10 -- a composite change is all-or-nothing under failure and interruption.

One run = one generated (tree, prelude, victim composite, mode); the fault
dimension is enumerated exhaustively for it: every mutating fscommand call
index x {fail-before, torn write}, every read call index, every task-handle
notification index (stop), plus the fault-free twin.  Each fault is one
execution of the real rope code on a fresh copy of the tree.
"""

from __future__ import annotations

import os

from .. import gen, kernel, realize, simfs
from ..model import flat_ops
from .base import Engine, Outcome

PROP = "C10"


class Ctx:
    """A fresh real project on a fresh copy of the initial tree."""

    def __init__(self, trace):
        import rope.base.change as rc
        from rope.base.project import Project

        self.dir = kernel.new_scratch("c10-")
        self.root = os.path.join(self.dir, "proj")
        kernel.write_tree(self.root, trace["init"])
        self.clock = kernel.SimClock()
        rc.time = kernel.TimeShim(self.clock)
        kernel.reset_rope_globals()
        self.fs = simfs.SimFS(self.root, self.clock)
        limit = (trace.get("swarm") or {}).get("limit", 32)
        self.project = Project(self.root, fscommands=self.fs, ropefolder=None, max_history_items=limit)
        self.changes = {}  # id -> realized ChangeSet
        self.sel = trace.get("sel", 0)
        self.base = kernel.snapshot(self.root)

    def step(self, st):
        """A prelude step (fault-free).  Total: a step that cannot apply is skipped."""
        self.clock.advance(1_000_000_000)
        h = self.project.history
        try:
            if st["op"] == "do":
                cs = realize.realize(self.project, st["cs"])
                self.project.do(cs)
                self.changes[st["cs"]["id"]] = cs
            elif st["op"] == "undo":
                if h.undo_list:
                    h.undo()
            elif st["op"] == "redo":
                if h.redo_list:
                    h.redo()
        except Exception as e:  # prelude steps are generated valid; tolerate under ddmin
            return type(e).__name__
        return "ok"

    def close(self):
        kernel.drop_scratch(self.dir)


def _prepare(trace):
    """Project after prelude and, for undo/redo modes, after the victim was done
    (and undone).  Returns (ctx, victim ChangeSet | None)."""
    ctx = Ctx(trace)
    prelude = trace.get("prelude", [])
    early = None
    if trace.get("preview_early") and prelude and not trace["victim"].get("refactor"):
        # the client builds the composite and looks at its preview, then another change is
        # made, and only then the composite is performed
        for st in prelude[:-1]:
            ctx.step(st)
        try:
            early = realize.realize(ctx.project, trace["victim"])
            early.get_description()
        except Exception:
            early = None
        ctx.step(prelude[-1])
    else:
        for st in prelude:
            ctx.step(st)
    mode = trace["mode"]
    if trace["victim"].get("refactor"):
        # the composite is what a real refactoring computes (multi-file edits, module moves)
        from ..world import compute_refactoring

        victim = compute_refactoring(ctx.project, trace["victim"]["refactor"])
        if victim is None or not victim.changes:
            return ctx, None, False
        victim.description = "victim"
    elif early is not None:
        victim = early
    elif trace["victim"].get("api"):
        # the change is made through the resource helper API (File.write, Resource.move, ...)
        victim = _ApiVictim(trace["victim"]["ops"][0])
    else:
        victim = realize.realize(ctx.project, trace["victim"])
    ok = True
    if mode in ("undo", "undo_drop", "redo", "undo_sel", "redo_sel"):
        ctx.clock.advance(1_000_000_000)
        try:
            if isinstance(victim, _ApiVictim):
                victim(ctx.project)
            else:
                ctx.project.do(victim)
            if mode == "undo_drop":
                # the victim waits on the redo list while an older change is undone with drop=True
                ctx.project.history.undo()
            if mode == "redo":
                ctx.project.history.undo()
                if trace.get("between"):
                    # another change is made while the victim waits on the redo list
                    ctx.project.do(realize.realize(ctx.project, trace["between"]))
            elif mode == "redo_sel":
                # several change sets go to the redo list; the faulted call redoes some of them
                h = ctx.project.history
                h.undo(change=h.undo_list[ctx.sel % len(h.undo_list)])
        except Exception:
            ok = False
    ctx.clock.advance(1_000_000_000)
    return ctx, victim, ok


class _ApiVictim:
    def __init__(self, op):
        self.op = op

    def __call__(self, project):
        from ..world import api_call

        api_call(project, self.op, precheck=False)


def _act(ctx, victim, mode, fault):
    """Perform the action under the given fault.  Returns (exc|None, stopper)."""
    stopper = None
    th = None
    if fault is not None and fault["kind"] == "stop":
        stopper = simfs.TaskStopper(stop_at=fault["k"])
        th = stopper.handle
        ctx.fs.arm(None)
    elif fault is not None and fault["kind"] == "count":
        stopper = simfs.TaskStopper(stop_at=None)
        th = stopper.handle
        ctx.fs.arm(None)
    else:
        ctx.fs.arm(fault)
    exc = None
    try:
        h = ctx.project.history
        kw = {"task_handle": th} if th is not None else {}
        if mode == "do" and isinstance(victim, _ApiVictim):
            victim(ctx.project)  # (the helper API takes no task handle)
        elif mode == "do":
            ctx.project.do(victim, **kw)
        elif mode == "undo":
            h.undo(**kw)
        elif mode == "undo_drop":
            h.undo(drop=True, **kw)
        elif mode == "undo_sel":
            h.undo(change=h.undo_list[ctx.sel % len(h.undo_list)], **kw)
        elif mode == "redo_sel":
            h.redo(change=h.redo_list[(ctx.sel // 3) % len(h.redo_list)], **kw)
        else:
            h.redo(**kw)
    except (KeyboardInterrupt, SystemExit, kernel.HarnessError):
        raise
    except BaseException as e:  # noqa: B036 - whatever rope lets escape is an outcome to be judged
        exc = e
    ctx.fs.disarm()
    return exc, stopper


def _state(ctx):
    return (
        kernel.snapshot(ctx.root),
        realize.history_struct(ctx.project, nested_time=False),
        realize.history_ids(ctx.project),
        kernel.file_modes(ctx.root),
    )


def enumerate_faults(n_mut, n_read, n_notif, writes, swarm):
    faults = []
    errnos = swarm.get("errnos", ["EIO"])
    for k in range(1, n_mut + 1):
        faults.append({"kind": "before", "k": k, "errno": errnos[k % len(errnos)]})
    for k in writes:
        for cut in swarm.get("cuts", [0, 2, 4]):
            faults.append({"kind": "torn", "k": k, "cut": cut, "errno": "ENOSPC"})
    for k in range(1, n_read + 1):
        faults.append({"kind": "read", "k": k})
    for m in range(-1, n_notif):
        faults.append({"kind": "stop", "k": m})
    return faults


class AtomicEngine(Engine):
    prop = PROP
    name = "atomic"
    level = "fault_enumeration"
    tiers = {
        "quick": {"runs": 4000, "wall": 150},
        "thorough": {"runs": 300000, "wall": 1800},
    }
    components_real = [
        "rope.base.project.Project",
        "rope.base.history.History",
        "rope.base.change (ChangeSet, ChangeContents, MoveResource, CreateResource, RemoveResource, _ResourceOperations)",
        "rope.base.taskhandle.TaskHandle/JobSet",
        "rope.base.fscommands.FileSystemCommands (underneath SimFS)",
        "rope.base.resources",
        "rope.base.resourceobserver + pycore observers",
        "kernel tmpfs",
    ]
    components_stub = [
        "disk errors (SimFS raises OSError at the armed call)",
        "the stopping thread (flips TaskHandle.stop() inside the m-th task-handle notification)",
        "wall clock stamped into change sets (rope.base.change.time -> simulated clock)",
    ]
    assumptions = [
        "a failing mkdir/rename/unlink has no effect (POSIX); only a failing write may be torn",
        "single fault per call of do/undo/redo; faults inside the rollback itself are not injected",
        "stop() can take effect only at a status check, so flipping it inside each task-handle notification (and before the call) covers every thread schedule",
        "VCS fscommands (git/hg/svn/darcs) are not exercised",
    ]
    rule = (
        "cases = (generated composite, mode do|undo|redo, fault kind, fault index), fault index enumerated "
        "exhaustively per composite from the fault-free twin's call counts; non-trivial = the fault actually "
        "fired with at least one sub-change already applied (rollback had in-flight state); distinct = by "
        "(flattened op-kind sequence of the composite, mode, fault kind, index)"
    )

    # -- generation ---------------------------------------------------------
    def gen_trace(self, rng):
        swarm = {
            "max_dirs": rng.choice([0, 1, 2, 3]),
            "min_files": 1,
            "max_files": rng.choice([2, 4, 6]),
            "max_ops": rng.choice([2, 3, 4, 6]),
            "removals": rng.random() < 0.3,
            "nest_p": rng.choice([0.0, 0.1, 0.3]),
            "natural_fail_p": rng.choice([0.0, 0.1, 0.25]),
            "errnos": rng.choice([["EIO"], ["ENOSPC", "EACCES", "EIO"], ["ENOENT", "EEXIST", "EPERM", "ESTALE"], ["ENOENT"]]),
            "cuts": rng.choice([[2], [0, 2, 4], [0, 1, 3]]),
            "prelude": rng.choice([0, 1, 2, 3]),
            # sometimes the undo list is already full when the victim is performed
            "limit": rng.choice([32, 32, 1, 2, 3]),
            "suffixless_p": rng.choice([0.0, 0.0, 0.3]),
            "bytes_p": rng.choice([0.0, 0.0, 0.1]),
        }
        if rng.random() < 0.25:
            # victim = a real refactoring on a small multi-module program
            init = gen.gen_program(rng, swarm)
            files = [e["p"] for e in init if not e.get("dir") and e["p"].endswith(".py")]
            mods = [f for f in files if not f.endswith("__init__.py")]
            pkgs = sorted({f.rsplit("/", 1)[0] for f in files if f.endswith("/__init__.py")})
            r = rng.random()
            if r < 0.25:
                rf = {"kind": "rename_module", "path": rng.choice(mods), "new": rng.choice(gen.NEW_IDENTS) + "9", "id": 1}
            elif r < 0.4 and pkgs:
                rf = {"kind": "move_module", "path": rng.choice(mods), "dest": rng.choice(pkgs), "id": 1}
            elif r < 0.5:
                rf = {"kind": "to_package", "path": rng.choice(mods), "id": 1}
            else:
                rf = {"kind": "rename", "path": rng.choice(files), "ident": rng.choice(gen.PROGRAM_IDENTS[:12]),
                      "occ": rng.randrange(3), "new": rng.choice(gen.NEW_IDENTS) + "9", "id": 1, "docs": False}
            return {
                "init": init, "prelude": [], "victim": {"id": 1, "desc": "victim", "ops": [], "refactor": rf},
                "mode": rng.choice(["do", "do", "undo", "redo"]), "faults": "all", "swarm": swarm,
            }
        init = gen.gen_tree(rng, swarm)
        if rng.random() < 0.2:
            # unusual but legal entries: an executable script, and a file that happens to be named
            # like a temporary copy of its neighbour
            fl = [e for e in init if not e.get("dir")]
            if fl:
                rng.choice(fl)["mode"] = 0o755
                e = rng.choice(fl)
                if not any(x["p"] == e["p"] + ".tmp" for x in init):
                    init.append({"p": e["p"] + ".tmp", "text": "scratch notes\n", "nl": "lf", "enc": "utf-8", "cls": None, "cookie": None})
        if rng.random() < 0.06:
            # an ignored file is edited together with ordinary ones; while that change waits on the
            # redo list the ignored file alone is edited again; then redo is asked for (refused:
            # the redo list was cleared; were it not, a failing redo would roll the later edit away)
            init = [e for e in init if e["p"] != "keep.txt~"] + [{"p": "keep.txt~", "text": "one\n", "nl": "lf", "enc": "utf-8", "cls": None, "cookie": None}]
            tree = gen.tree_model_of(init)
            classes = gen.file_classes(init)
            victim, _ = gen.gen_changeset(rng, tree, classes, dict(swarm, removals=False, nest_p=0.0), 1)
            victim["desc"] = "victim"
            victim["ops"].insert(rng.randint(0, len(victim["ops"])), ["edit", "keep.txt~", "two\n"])
            return {"init": init, "prelude": [], "victim": victim, "mode": "redo", "faults": "all", "swarm": swarm, "sel": 0,
                    "preview_early": False, "between": {"id": 2, "desc": "between", "ops": [["edit", "keep.txt~", "three\n"]]}}
        tree = gen.tree_model_of(init)
        classes = gen.file_classes(init)
        prelude = []
        undone = 0
        pre_swarm = dict(swarm, removals=False)
        for i in range(swarm["prelude"]):
            rec, after = gen.gen_changeset(rng, tree, classes, pre_swarm, 100 + i, max_ops=3)
            prelude.append({"op": "do", "cs": rec})
            tree = after
        # leave something on the redo list sometimes (only undo the last ones,
        # and keep `tree` in step with what is on disk)
        if prelude and rng.random() < 0.5:
            # re-derive the tree without the last change set
            t2 = gen.tree_model_of(init)
            for st in prelude[:-1]:
                t2.apply_all(st["cs"]["ops"])
            tree = t2
            classes = _classes_after(init, prelude[:-1])
            prelude.append({"op": "undo"})
            undone = 1
        mode = rng.choice(["do", "do", "undo", "redo"] + (["undo_drop"] if len([p for p in prelude if p["op"] == "do"]) - undone >= 1 else []) + (["undo_sel", "undo_sel", "redo_sel"] if len([p for p in prelude if p["op"] == "do"]) >= 1 else []))
        allow_bad = mode == "do" and rng.random() < swarm["natural_fail_p"]
        victim, _after = gen.gen_changeset(rng, tree, classes, swarm, 1, allow_bad=allow_bad)
        victim["desc"] = "victim"
        if mode in ("do", "undo", "redo") and rng.random() < 0.12:
            flat = [o for o in flat_ops(victim["ops"]) if o[0] in ("edit", "mkdir", "mkfile", "move", "remove")]
            try:
                tree.copy().apply(flat[0])
                victim = {"id": 1, "desc": "victim", "ops": [flat[0]], "api": True}
            except Exception:
                pass
        return {
            "init": init,
            "prelude": prelude,
            "victim": victim,
            "mode": mode,
            "faults": "all",
            "swarm": swarm,
            "sel": rng.randrange(8),
            "preview_early": mode == "do" and rng.random() < 0.25,
        }

    def run(self, run_seed):
        rng = kernel.rng_for("atomic", run_seed)
        trace = self.gen_trace(rng)
        return self.execute(trace)

    def replay(self, trace):
        return self.execute(trace)

    # -- execution ----------------------------------------------------------
    def execute(self, trace):
        out = Outcome(PROP)
        out.trace = trace
        out.swarm = trace.get("swarm")
        swarm = trace.get("swarm") or {}
        mode = trace["mode"]
        shape = [op[0] for op in flat_ops(trace["victim"]["ops"])]
        if trace["victim"].get("refactor"):
            shape = ["refactor:" + trace["victim"]["refactor"]["kind"]]
            out.stats["probe_refactoring_victim"] += 1
        out.log.add(ev="run", mode=mode, shape=shape, prelude=len(trace.get("prelude", [])))
        out.schedules.add(kernel.short_hash([mode, shape, [s["op"] for s in trace.get("prelude", [])]]))

        # ---- fault-free twin (also counts the fault positions)
        ctx, victim, ok = _prepare(trace)
        try:
            if not ok:
                # the victim cannot even be set up for undo/redo (naturally failing do):
                out.stats["skipped_setup"] += 1
                out.log.add(ev="skip")
                return out
            s0 = s0_twin = _state(ctx)
            exc, stopper = _act(ctx, victim, mode, {"kind": "count"})
            n_mut, n_read = ctx.fs.mut_count, ctx.fs.read_count
            writes = [i + 1 for i, r in enumerate(ctx.fs.log) if r[0] == "write"]
            fslog = list(ctx.fs.log)
            if trace["victim"].get("refactor"):
                shape = shape + [r[0] for r in fslog]
                if len(fslog) >= 2:
                    out.stats["probe_refactoring_victim_multi_op"] += 1
            n_notif = stopper.notifications
            s1 = _state(ctx)
            twin_raised = exc is not None
            out.evals += 1
            out.stats["exec_twin"] += 1
            out.log.add(
                ev="twin", raised=type(exc).__name__ if exc else None, n_mut=n_mut, n_read=n_read,
                n_notif=n_notif, tree0=kernel.tree_hash(s0[0]), tree1=kernel.tree_hash(s1[0]),
                hist=kernel.short_hash(s1[1]),
            )
            out.state(kernel.tree_hash(s1[0]), kernel.short_hash(s1[1]))
            if twin_raised:
                out.stats["natural_failures"] += 1
                self._check_raised(out, trace, {"kind": "natural", "k": 0}, ctx, s0, exc, fired=None, applied=len(fslog))
                if len(fslog) > 0:
                    out.nontrivial(shape, mode, "natural", 0)
        finally:
            ctx.close()

        if trace["faults"] == "all":
            faults = enumerate_faults(n_mut, n_read, n_notif, writes, swarm)
            if trace["victim"].get("api") and mode == "do" and shape == ["edit"]:
                # File.write first reads the file to see whether anything changes and documents
                # that a failure of that read is ignored; it is not part of performing the change
                faults = [f for f in faults if not (f["kind"] == "read" and f["k"] == 1)]
            if trace["victim"].get("api") and mode == "do":
                faults = [f for f in faults if f["kind"] != "stop"]
        else:
            faults = trace["faults"]

        for fault in faults:
            ctx, victim, ok = _prepare(trace)
            try:
                if not ok:
                    continue
                s0 = _state(ctx)  # ids are per project instance
                if s0[0] != s0_twin[0] or s0[1] != s0_twin[1]:
                    raise kernel.HarnessError("prepared state differs from the twin's (nondeterminism leak)")
                exc, stopper = _act(ctx, victim, mode, fault)
                out.evals += 1
                kind = fault["kind"]
                out.stats["exec_" + kind] += 1
                if kind == "stop":
                    fired = {"kind": "stop", "k": fault["k"]} if stopper.fired else None
                    applied = _applied_before_stop(fault["k"])
                    fop = "stop"
                else:
                    fired = ctx.fs.fired
                    applied = (fault["k"] - 1) if kind != "read" else len(ctx.fs.log)
                    fop = fired["op"] if fired else None
                if ctx.fs.rollback_log:
                    out.stats["probe_rollback_ran"] += 1
                    out.stats["rollback_fs_calls"] += len(ctx.fs.rollback_log)
                    if len(ctx.fs.rollback_log) >= 2:
                        out.stats["probe_rollback_of_2plus_subchanges"] += 1
                if fired:
                    out.stats["fired_" + kind] += 1
                    if applied > 0:
                        out.stats["fired_with_inflight_" + kind] += 1
                        out.nontrivial(shape, mode, kind, fault["k"], fault.get("cut"))
                after = _state(ctx)
                out.log.add(
                    ev="fault", fault=fault, fired=bool(fired), exc=type(exc).__name__ if exc else None,
                    tree=kernel.tree_hash(after[0]), hist=kernel.short_hash(after[1]),
                )
                out.state(kernel.tree_hash(after[0]), kernel.short_hash(after[1]))
                info = {
                    "mode": mode,
                    "fault": kind,
                    "fault_op": fop,
                    "remove_applied_before": mode not in ("undo", "undo_drop") and "remove" in shape[:applied],
                    "victim_has_remove": "remove" in shape,
                }
                if exc is not None:
                    out.stats["outcome_raised"] += 1
                    out.stats["exc_" + type(exc).__name__] += 1
                    self._check_raised(out, trace, fault, ctx, s0, exc, fired, applied, info, victim, s1, twin_raised)
                else:
                    out.stats["outcome_returned"] += 1
                    if fired and kind in ("before", "torn", "read"):
                        out.violate(
                            "error_not_reported", info,
                            {"fault": fault, "msg": "an injected file-system error fired but the call returned normally"},
                            where=fault,
                        )
                    elif twin_raised:
                        out.violate(
                            "third_state", info,
                            {"fault": fault, "msg": "fault-free twin raises but the faulted call returned"},
                            where=fault,
                        )
                    elif after[0] != s1[0] or after[1] != s1[1]:
                        out.violate(
                            "third_state", info,
                            {
                                "fault": fault,
                                "msg": "call returned normally but tree/history differ from the fault-free twin",
                                "tree_diff": kernel.diff_trees(s1[0], after[0]),
                                "hist_equal": after[1] == s1[1],
                            },
                            where=fault,
                        )
            finally:
                ctx.close()
        out.sim_s = (3 + len(trace.get("prelude", []))) * 1.0 * max(1, out.evals)
        if out.sample is None:
            out.sample = {"mode": mode, "victim_ops": trace["victim"]["ops"], "faults_enumerated": len(faults),
                          "prelude": [s["op"] for s in trace.get("prelude", [])]}
        return out

    def _check_raised(self, out, trace, fault, ctx, s0, exc, fired, applied, info=None, victim=None, s1=None, twin_raised=True):
        shape = [o[0] for o in flat_ops(trace["victim"]["ops"])]
        info = dict(info or {"mode": trace["mode"], "fault": fault["kind"], "fault_op": None,
                             "remove_applied_before": trace["mode"] not in ("undo", "undo_drop") and "remove" in shape[:applied],
                             "victim_has_remove": "remove" in shape})
        info["exc"] = type(exc).__name__
        # did the rollback meet RemoveResource.undo (not implemented upstream)? The exception
        # that finally surfaces may come from a later rollback step that missed the removed
        # resource, so the whole chain is searched
        e, refused, seen = exc, False, 0
        while e is not None and seen < 50:
            if isinstance(e, NotImplementedError) and "RemoveResource" in str(e):
                refused = True
            e, seen = (e.__context__ or e.__cause__), seen + 1
        info["remove_undo_refused"] = refused
        after = _state(ctx)
        bad = False
        if trace["mode"] in ("undo_sel", "redo_sel"):
            # A selective undo of several change sets undoes them one by one;
            # stopped part-way it must leave a *consistent* state: every change
            # set either fully undone (and on the redo list) or fully in force,
            # i.e. the tree is the replay of what the undo list now holds.
            self._check_consistent(out, trace, fault, ctx, after, info)
            return
        if after[0] != s0[0]:
            bad = True
            differing = sorted(k for k in set(after[0]) | set(s0[0]) if after[0].get(k) != s0[0].get(k))
            # exactly one path differs and it is a file before and after (the
            # in-flight sub-change's file, wherever the rollback has put it back)
            one_file = (
                len(differing) == 1
                and isinstance(after[0].get(differing[0]), bytes)
                and isinstance(s0[0].get(differing[0]), bytes)
            )
            if fault["kind"] == "torn" and fired:
                info["only_inflight_file_differs"] = one_file
            if fault["kind"] == "read" and fired:
                info["read_after_apply"] = bool(fired.get("after_apply"))
                info["only_inflight_file_differs"] = one_file
            out.violate(
                "tree_not_restored", info,
                {"fault": fault, "exc": repr(exc)[:200], "msg": "call raised but the tree differs from before the call",
                 "tree_diff": kernel.diff_trees(s0[0], after[0])},
                where=fault,
            )
        if after[0] == s0[0] and after[3] != s0[3]:
            bad = True
            out.violate(
                "tree_not_restored", dict(info, what="permission bits"),
                {"fault": fault, "exc": repr(exc)[:200], "msg": "call raised, contents are as before but permission bits are not",
                 "modes": {k: [oct(s0[3].get(k, 0)), oct(after[3].get(k, 0))] for k in set(s0[3]) | set(after[3]) if s0[3].get(k) != after[3].get(k)}},
                where=fault,
            )
        if after[2] != s0[2] or after[1] != s0[1]:
            bad = True
            out.violate(
                "history_changed", info,
                {"fault": fault, "exc": repr(exc)[:200], "msg": "call raised but undo/redo lists changed",
                 "before": _hist_brief(s0[1]), "after": _hist_brief(after[1])},
                where=fault,
            )
        # bounded liveness: with faults off the same call now succeeds and
        # reaches the fault-free twin's state
        if not bad and not twin_raised and victim is not None:
            exc2, _ = _act(ctx, victim, trace["mode"], None)
            out.stats["retries"] += 1
            if exc2 is not None:
                out.violate(
                    "retry_failed", info,
                    {"fault": fault, "msg": "after the rolled-back failure the same call fails with faults off",
                     "exc": repr(exc2)[:200]},
                    where=fault,
                )
            else:
                again = _state(ctx)
                if again[0] != s1[0] or again[1] != s1[1]:
                    out.violate(
                        "retry_diverged", info,
                        {"fault": fault, "msg": "retry after rollback does not reach the fault-free twin's state",
                         "tree_diff": kernel.diff_trees(s1[0], again[0]), "hist_equal": again[1] == s1[1]},
                        where=fault,
                    )

    def _check_consistent(self, out, trace, fault, ctx, after, info):
        from ..model import ModelError, TreeModel

        # change sets in the order they were performed; a prelude "undo" takes the
        # last one back and the victim's do then clears it from the redo list
        performed = []
        for st in trace.get("prelude", []):
            if st["op"] == "do":
                performed.append((st["cs"]["desc"], st["cs"]["ops"]))
            elif st["op"] == "undo" and performed:
                performed.pop()
        performed.append(("victim", trace["victim"]["ops"]))
        undo_descs = [c[1] for c in after[1][0]]
        redo_descs = [c[1] for c in after[1][1]]
        out.stats["probe_selective_undo_interrupted"] += 1
        known = {d for d, _ in performed}
        if (len(redo_descs) != len(set(redo_descs)) or set(undo_descs) & set(redo_descs)
                or not set(undo_descs) <= known or not set(redo_descs) <= known):
            out.violate("history_inconsistent", info, {"fault": fault, "undo": undo_descs, "redo": redo_descs,
                                                       "msg": "a change set is on both lists, twice on one, or unknown"}, where=fault)
            return
        # in force = performed and not (now) on the redo list; those no longer on
        # the undo list either were dropped by the history limit but stay applied
        t = TreeModel(ctx.base)
        try:
            for d, ops in performed:
                if d not in redo_descs:
                    t.apply_all(ops)
        except ModelError as e:
            out.violate("history_inconsistent", info, {"fault": fault, "undo": undo_descs, "redo": redo_descs,
                                                       "msg": "the changes in force cannot be replayed: %r" % (e,)}, where=fault)
            return
        if t.files != after[0]:
            differing = sorted(k for k in set(after[0]) | set(t.files) if after[0].get(k) != t.files.get(k))
            one_file = (len(differing) == 1 and isinstance(after[0].get(differing[0]), bytes)
                        and isinstance(t.files.get(differing[0]), bytes))
            info = dict(info)
            if fault["kind"] in ("torn", "read") and ctx.fs.fired:
                info["only_inflight_file_differs"] = one_file
                if fault["kind"] == "read":
                    info["read_after_apply"] = bool(ctx.fs.fired.get("after_apply"))
            out.violate(
                "tree_inconsistent_with_history", info,
                {"fault": fault, "exc": info.get("exc"), "undo": undo_descs, "redo": redo_descs,
                 "msg": "after the interrupted selective undo the tree is not the replay of the undo list",
                 "tree_diff": kernel.diff_trees(t.files, after[0])},
                where=fault,
            )

    def minimise(self, trace, vclass, budget=200, where=None, sig=None):
        t = dict(trace)
        if where is not None:
            t["faults"] = [where]

        fkind = where.get("kind") if where else None
        # shrinking must stay with the same phenomenon, not drift to another one of the same class
        keep = {k: sig[k] for k in ("remove_applied_before", "remove_undo_refused", "exc") if sig and k in sig}

        def fails(cand):
            o = self.execute(cand)
            return any(
                v["class"] == vclass and (fkind is None or v["signature"].get("fault") == fkind)
                and all(v["signature"].get(k) == x for k, x in keep.items())
                for v in o.violations
            )

        if where is not None and not fails(t):
            t["faults"] = "all"
        # shrink with the whole fault dimension re-enumerated (the failing index
        # moves when sub-changes disappear), then pin the first failing fault
        t_all = dict(t, faults="all")
        t_all, spent = kernel.ddmin_trace(t_all, fails, budget)
        o = self.execute(t_all)
        for v in o.violations:
            if v["class"] == vclass and v.get("where") and v["where"].get("kind") == (fkind or v["where"].get("kind")) and v["where"].get("kind") != "natural":
                t_all = dict(t_all, faults=[v["where"]])
                break
        return t_all, spent


def _applied_before_stop(m):
    # notifications: 0 = create_jobset, 1 = started#1, 2 = finished#1, 3 = started#2 ...
    # a stop inside notification m>=1 is seen by the next check; sub-changes
    # applied by then: ceil(m/2)
    if m <= 0:
        return 0
    return (m + 1) // 2


def _hist_brief(h):
    return [[c[1] for c in h[0]], [c[1] for c in h[1]]]


def _classes_after(init, prelude):
    classes = gen.file_classes(init)
    for st in prelude:
        if st["op"] == "do":
            for f in flat_ops(st["cs"]["ops"]):
                if f[0] == "move":
                    gen._move_classes(classes, f[1], f[2])
    return classes


ENGINE = AtomicEngine()
