"""Common engine plumbing."""

from __future__ import annotations

import collections

from .. import kernel


class Outcome:
    """What one simulated run reports back to the batch runner."""

    def __init__(self, prop):
        self.prop = prop
        self.trace = None
        self.swarm = None
        self.log = kernel.EventLog(keep=bool(__import__('os').environ.get('VERIF_KEEP_LOG')))
        self.evals = 0
        self.stats = collections.Counter()
        self.sigs = set()  # hashes of distinct non-trivial cases
        self.states = set()  # hashes of distinct states reached
        self.schedules = set()  # hashes of distinct actor/op sequences
        self.violations = []  # dicts: class, signature, detail, where
        self.sim_s = 0.0
        self.sample = None

    def violate(self, cls, signature, detail, where=None):
        sig = dict(signature)
        sig["class"] = cls
        self.violations.append({"class": cls, "signature": sig, "detail": detail, "where": where})

    def nontrivial(self, *key):
        self.sigs.add(hash48(key))

    def state(self, *key):
        self.states.add(hash48(key))

    def pack(self):
        return {
            "prop": self.prop,
            "trace": self.trace,
            "swarm": self.swarm,
            "digest": self.log.digest(),
            "events": self.log.n,
            "evals": self.evals,
            "stats": dict(self.stats),
            "sigs": self.sigs,
            "states": self.states,
            "schedules": self.schedules,
            "violations": self.violations,
            "sim_s": self.sim_s,
            "sample": self.sample,
            "log_lines": self.log.lines,
        }


def hash48(key) -> int:
    import hashlib

    return int.from_bytes(hashlib.sha256(kernel.canon(key).encode()).digest()[:6], "big")


class Engine:
    prop = None
    name = None
    level = "exploration"
    tiers = {"quick": {"runs": 100}, "thorough": {"runs": 1000}}
    components_real = []
    components_stub = []
    assumptions = []
    rule = ""

    def run(self, run_seed: int) -> Outcome:
        """Generate (from the seed only) and execute one simulated run."""
        raise NotImplementedError

    def replay(self, trace: dict) -> Outcome:
        """Execute a recorded trace; draws nothing from any PRNG."""
        raise NotImplementedError

    def minimise(self, trace, vclass, budget=250):
        def fails(cand):
            out = self.replay(cand)
            return any(v["class"] == vclass for v in out.violations)

        return kernel.ddmin_trace(trace, fails, budget)
