"""C16 -- files survive rope byte-for-byte apart from the intended edit.

Decided here: the *state-carrying* part of the property.  The newline
convention is remembered per File object at its last read and re-applied at
write; old contents are captured at the first do and written back at undo;
both travel through history save/reload, through rollback after a failed
write, and past changes made behind rope's back.  One run = one seeded
history of file-store operations on long-lived and fresh File objects against
a byte-exact reference model; text / encoding / newline values are drawn per
run (they are generated values, not a searched space).
"""

from __future__ import annotations

import os
import re

from .. import gen, kernel, realize, simfs
from ..model import HistoryModel, ModelError, TreeModel, declared_encoding, encode_text, newline_of
from ..world import World, exec_history_step, compute_refactoring, abstract_of
from .base import Engine, Outcome

PROP = "C16"
ROPEFOLDER = ".ropeproject"

ALPHABETS = {
    "ascii": list("abcXYZ019 _=+-()[]'\"#:.,\t") + ["\x0c", "\x0b", "\x1c", "\x1d", "\x1e"],
    "latin": list("abc =é ü ß ÿ ñ") + ["\x85", "\xa0", "\x0c"],
    "latin9": list("abc =é € Š œ Ž"),  # characters ISO 8859-15 has and ISO 8859-1 has not
    "cyr": list("ab= Жукяё"),
    "jp": list("ab= 日本語ｱあ"),
    "jp2": list("ab= 日本語あ"),
    "utf7": list("ab= é Ж 日 +-~{}"),
    "zh": list("ab= 中文字~"),
    "utf8": list("ab= é Ж 日 ") + ["😀", " ", " ", "\x85", "́", "﻿", "\x0c", "\x1c", "ｱ", "\xa0"],
}

# (cookie name, alphabet class, python codec)
CODECS = [
    (None, "utf8", "utf-8"), (None, "utf8", "utf-8"), (None, "ascii", "utf-8"),
    ("utf-8", "utf8", "utf-8"), ("utf8", "utf8", "utf-8"), ("UTF-8", "utf8", "utf-8"),
    ("latin-1", "latin", "latin-1"), ("iso-8859-1", "latin", "iso-8859-1"), ("iso-8859-15", "latin9", "iso-8859-15"),
    ("cp1252", "latin", "cp1252"), ("cp1251", "cyr", "cp1251"), ("koi8-r", "cyr", "koi8-r"),
    ("shift_jis", "jp", "shift_jis"), ("euc_jp", "jp", "euc_jp"), ("cp932", "jp", "cp932"),
    ("ascii", "ascii", "ascii"), ("cp437", "ascii", "cp437"),
    # 7-bit stateful codecs: the bytes are pure ASCII although the text is not
    ("iso-2022-jp", "jp2", "iso2022_jp"), ("utf-7", "utf7", "utf-7"), ("hz", "zh", "hz"),
    # names Python normalises although no codec is registered under them (the forms Emacs writes)
    ("utf-8-unix", "utf8", "utf-8"), ("latin-1-dos", "latin", "iso-8859-1"), ("iso-latin-1-unix", "latin", "iso-8859-1"),
]

COOKIE_FORMS = [
    "# -*- coding: %s -*-",
    "# vim: set fileencoding=%s :",
    "#coding=%s",
    "#!/usr/bin/python\n# -*- coding: %s -*-",
    " \t# coding: %s",
    "\x0c# coding: %s",
    "# first\x0cline\x1c\n# coding: %s",
    "#!/bin/sh \x0b\x1d\n#  vim: fileencoding=%s",
    "\n# -*- coding: %s -*-",
]


def gen_store_text(rng, codec, allow_empty=True, nls=("lf", "crlf", "cr")):
    cookie, cls, enc = codec
    for _ in range(20):
        n = rng.choice([0, 0, 1, 2, 3, 5, 8]) if allow_empty else rng.choice([1, 2, 3, 5])
        alpha = ALPHABETS[cls]
        lines = ["".join(rng.choice(alpha) for _ in range(rng.choice([0, 1, 3, 6, 12]))) for _ in range(n)]
        # a body line must not look like a coding line itself
        lines = [l for l in lines if declared_encoding(l) is None]
        if cookie and rng.random() < 0.06 and cls not in ("zh", "utf7", "jp2"):
            # (not for the stateful 7-bit codecs: CPython's hz codec cannot decode some long runs it encodes)
            # a very long first line (generated banner, licence one-liner): the coding line is
            # still line 2, however many characters or bytes precede it
            plain = [c for c in alpha if c not in "\n\r\x0b\x0c\x1c\x1d\x1e\x85\u2028\u2029"] or ["x"]
            body = "-" * 1100 if rng.random() < 0.5 else "".join(rng.choice(plain) for _ in range(700))
            lines = ["# " + body, "# -*- coding: %s -*-" % cookie] + lines
        elif cookie:
            lines = (rng.choice(COOKIE_FORMS) % cookie).split("\n") + lines
        text = "\n".join(lines)
        if lines and rng.random() < 0.7:
            text += "\n"
        if rng.random() < 0.08 and not cookie:
            text = "﻿" + text  # UTF-8 byte order mark
        if not cookie and declared_encoding(text):
            continue
        try:
            if text.encode(enc).decode(enc) != text:
                continue
        except (UnicodeError, LookupError):
            continue
        if not _bytes_declare(text, enc, cookie, nls):
            continue
        return text
    return ("# -*- coding: %s -*-\n" % cookie) if cookie else "x = 1\n"


def _bytes_declare(text, enc, cookie, nls=("lf", "crlf", "cr")):
    """The *bytes* of the file must declare what the *text* declares, under every
    newline convention (a stateful 7-bit codec may escape characters of the
    cookie line itself, e.g. a form feed in UTF-7; then the declaration seen in
    the text is invisible in the bytes)."""
    for nl in [kernel.NL.get(x, x) for x in nls]:
        conv = text.replace("\n", nl)
        try:
            raw = conv.encode(enc)
            if raw.decode(enc) != conv:
                return False  # the codec itself does not round-trip this text (CPython's hz does that for some '~' runs)
            head = raw.decode("latin-1")
        except (UnicodeError, LookupError):
            return False
        seen_in_text = declared_encoding(conv)
        if declared_encoding(head) != seen_in_text:
            return False
        # what is declared (as Python sees it under this convention) must be the codec in use
        eff = (seen_in_text or "utf-8").lower().replace("_", "-")
        want = enc.lower().replace("_", "-")
        if eff != want and not ({eff, want} <= {"utf-8", "utf8"}) and (seen_in_text or "") != (cookie or ""):
            return False
    return True


def model_decode(data: bytes) -> str:
    """Independent decoding of a consistent-newline file to '\\n'-normalised text."""
    head = data.decode("latin-1")
    enc = declared_encoding(head) or "utf-8"
    text = data.decode(enc)
    return text.replace("\r\n", "\n").replace("\r", "\n")


def _to_ascii(text):
    return "".join("Z" if ord(c) > 127 else c for c in text)


def _non_ascii_only_in_strings_and_comments(text):
    import io
    import tokenize

    try:
        for tok in tokenize.generate_tokens(io.StringIO(text).readline):
            if not tok.string.isascii() and tok.type not in (tokenize.STRING, tokenize.COMMENT) and \
                    tok.type not in (getattr(tokenize, "FSTRING_MIDDLE", -1),):
                return False
    except (tokenize.TokenError, SyntaxError, IndentationError):
        return False
    return True


def _ascii_twin(W, st, prefs):
    """The same refactoring computed on a twin of the project in which every non-ASCII
    character (they occur in string literals and comments only) is replaced by 'Z'.
    Returns {path: new text}, "refused", or None when no twin can be built."""
    from rope.base.project import Project

    snap = W.snapshot()
    d = kernel.new_scratch("c16t-")
    try:
        any_non_ascii = False
        for p, v in snap.items():
            full = os.path.join(d, *p.split("/"))
            if v == kernel.DIR:
                os.makedirs(full, exist_ok=True)
                continue
            os.makedirs(os.path.dirname(full), exist_ok=True)
            try:
                text = v.decode(_effective_encoding(v))
            except (UnicodeError, LookupError):
                return None
            text = text.replace("\r\n", "\n").replace("\r", "\n")
            any_non_ascii = any_non_ascii or not text.isascii()
            if p.endswith(".py") and not text.isascii() and not _non_ascii_only_in_strings_and_comments(text):
                return None  # replacing characters would change the program's syntax: no twin
            try:
                if _to_ascii(text).encode("ascii").decode(_effective_encoding(v)) != _to_ascii(text):
                    return None  # a stateful 7-bit codec (UTF-7, HZ, ...) reads the replaced text differently: no twin
            except (UnicodeError, LookupError):
                return None
            with open(full, "w", encoding="ascii", newline="") as fh:
                fh.write(_to_ascii(text))
        if not any_non_ascii:
            return None
        T = Project(d, ropefolder=None, **{k: v for k, v in prefs.items() if k in ("automatic_soa", "ignore_syntax_errors", "pull_imports_to_top")})
        try:
            ch = compute_refactoring(T, st)
            if ch is None or not ch.changes:
                return "refused"
            ops = abstract_of(ch)
            res = {o[1]: o[2] for o in ops if o[0] == "edit"}
            res["<other>"] = [o[:2] for o in ops if o[0] != "edit"]
            return res
        finally:
            T.close()
    finally:
        kernel.drop_scratch(d)
        W.use()


def _effective_encoding(data: bytes) -> str:
    """The encoding CPython reads a source file with: the PEP 263 declaration in the first two
    lines (any of LF, CRLF, CR ends a line for the interpreter), else UTF-8; codec names normalised."""
    import codecs as _codecs

    text = data.decode("latin-1").replace("\r\n", "\n").replace("\r", "\n")
    name = declared_encoding(text) or "utf-8"
    try:
        return _codecs.lookup(name).name
    except LookupError:
        return name.lower()


def _word(rng, cls, n=5):
    plain = [c for c in ALPHABETS[cls] if c.isalnum()] or ["x"]
    return "".join(rng.choice(plain) for _ in range(n))


def prog_edit(rng, text, codec):
    """An edit that keeps a program module valid Python: a comment or an assignment with text
    in the module's own alphabet is inserted at a top-level boundary, or such a line is removed."""
    cookie, cls, enc = codec
    lines = text.split("\n")
    lo = 2 if cookie else 0
    mine = [k for k in range(lo, len(lines)) if lines[k].startswith(("# ed ", "ed_"))]
    if mine and rng.random() < 0.3:
        del lines[rng.choice(mine)]
        return "\n".join(lines)
    spots = [k for k in range(lo, len(lines)) if lines[k][:1] and not lines[k][:1].isspace()] + [len(lines) - (1 if lines and lines[-1] == "" else 0)]
    k = rng.choice(spots)
    new_line = ("# ed %s" % _word(rng, cls)) if rng.random() < 0.5 else ("ed_%d = '%s'" % (rng.randint(0, 99), _word(rng, cls)))
    names = re.findall(r"^([a-z]\w*) = ", text, re.M)
    if names and rng.random() < 0.25:
        # a use of a module-level name, possibly above its assignment
        new_line = "ed_%d = lambda: (%s, '%s')" % (rng.randint(0, 99), rng.choice(names), _word(rng, cls, 2))
    lines.insert(k, new_line)
    new = "\n".join(lines)
    try:
        if new.encode(enc).decode(enc) != new:
            return text + "# ed x\n"
    except (UnicodeError, LookupError):
        return text + "# ed x\n"
    return new


def edit_of(rng, text, codec, nls=("lf", "crlf", "cr")):
    """A partial edit: one line inserted, deleted or replaced; everything else
    (cookie line included) untouched."""
    cookie, cls, enc = codec
    lines = text.split("\n")
    lo = 0
    if cookie:
        # keep the cookie where it is
        lo = 2 if lines and lines[0].startswith("#!") else 1
    new_line = "".join(rng.choice(ALPHABETS[cls]) for _ in range(rng.choice([1, 3, 8])))
    if declared_encoding(new_line):
        new_line = "x"
    i = rng.randint(lo, max(lo, len(lines)))
    r = rng.random()
    if r < 0.4 or len(lines) <= lo:
        lines.insert(min(i, len(lines)), new_line)
    elif r < 0.65 and len(lines) > lo + 1:
        del lines[min(i, len(lines) - 1)]
    else:
        lines[min(i, len(lines) - 1)] = new_line
    new = "\n".join(lines)
    if rng.random() < 0.15:
        new = new.rstrip("\n") if new.endswith("\n") else new + "\n"
    fallback = (text if text.endswith("\n") or not text else text + "\n") + "y\n"
    if not cookie and declared_encoding(new):
        return fallback
    try:
        if new.encode(enc).decode(enc) != new:
            return fallback
    except (UnicodeError, LookupError):
        return fallback
    if not _bytes_declare(new, enc, cookie, nls):
        return fallback
    return new if new != text else fallback


class ByteStoreEngine(Engine):
    prop = PROP
    name = "bytestore"
    level = "exploration"
    tiers = {
        "quick": {"runs": 30000, "wall": 150},
        "thorough": {"runs": 1200000, "wall": 1800},
    }
    components_real = [
        "rope.base.resources.File (read/write/newlines; long-lived and fresh objects)",
        "rope.base.fscommands (unicode_to_file_data, file_data_to_unicode, read_str_coding)",
        "rope.base.change.ChangeContents/_ResourceOperations.write_file", "rope.base.history (undo/redo, save/reload)",
        "rope.base.resourceobserver (validate after external newline flip)", "rope.refactor.rename as the edit",
        "kernel tmpfs",
    ]
    components_stub = [
        "external editor (flips a file's newline convention behind rope's back, stamped by the simulated clock)",
        "disk error on the k-th write of a multi-file change (SimFS)", "wall clock (simulated)",
    ]
    assumptions = [
        "texts are '\\n'-normalised and the file's convention is consistent (no bare \\r inside a line)",
        "contents are encodable in (and round-trip through) the declared codec",
        "a coding line counts if Python itself would see it (first two '\\n'-terminated lines of the bytes)",
        "the text x encoding x newline product is sampled as generated values; only the state-carrying paths are searched",
    ]
    rule = (
        "cases = seeded histories of file-store steps (read via fresh/held File, write-back of the same text, "
        "do(ChangeContents same/edited), File.write, rename refactoring, undo, redo, close+reopen, external newline flip "
        "+ validate, multi-file change with an injected write failure) over files with drawn newline convention, codec, "
        "cookie form and text; every step is one evaluation with a whole-tree byte comparison; non-trivial = a step on a "
        "file that is non-ASCII or CRLF/CR or lacks a final newline AND that exercises carried state (held File object "
        "after another write, undo/redo, reopen, external flip, rollback); distinct = by (step kind sequence prefix, "
        "newline, codec, cookie form)"
    )

    # ------------------------------------------------------------------
    def gen_trace(self, rng):
        swarm = {
            "files": rng.choice([1, 2, 3]),
            "steps": rng.choice([4, 8, 14, 24]),
            "soa": rng.random() < 0.6,
            "program": rng.random() < 0.2,
            "w": {
                "read": rng.choice([1, 3]), "same_write": rng.choice([1, 3]), "same_do": rng.choice([1, 2]),
                "edit": rng.choice([3, 6]), "file_write": rng.choice([1, 3]), "undo": rng.choice([1, 3]),
                "redo": rng.choice([1, 2]), "reopen": rng.choice([0, 1, 2]), "flip": rng.choice([0, 1, 2]),
                "fail": rng.choice([0, 1, 2]), "refactor": rng.choice([0, 2]), "create": rng.choice([0, 1]),
                "unencodable": rng.choice([0, 1]), "bytes_write": rng.choice([0, 0, 1]), "recode": rng.choice([0, 0, 1]), "unwind": rng.choice([0, 1, 1]), "empty_refill": rng.choice([0, 1]),
            },
        }
        init = []
        codecs = {}
        if swarm["program"]:
            swarm["w"]["refactor"] = rng.choice([3, 6])
            init = gen.gen_program(rng)
            for e in init:
                if not e.get("dir"):
                    codecs[e["p"]] = [None, "utf8", "utf-8"]
            if rng.random() < 0.6:
                # string literals with the program's own characters on def lines and in calls
                wcls = "utf8"
                for e in init:
                    if not e.get("dir") and "def add(a, b):" in e["text"]:
                        e["text"] = e["text"].replace("def add(a, b):", "def add(a, b='%s'):" % _word(rng, "cyr", 3)).replace(
                            "add(1, 'x')", "add(1, '%s')" % _word(rng, "latin", 3))
                    if not e.get("dir") and "def run():" in e["text"]:
                        e["text"] = e["text"].replace("def run():", "def run(t='%s', u=2):" % _word(rng, "jp", 2)).replace(
                            "alpha.run()", "alpha.run('%s')" % _word(rng, "latin", 2))
                swarm["non_ascii_signatures"] = True
            if rng.random() < 0.5 and not swarm.get("non_ascii_signatures"):
                # the whole program is kept in a legacy encoding: every module declares it and
                # carries text that only round-trips under that declaration
                pc = rng.choice([c for c in CODECS if c[0] and c[1] in ("latin", "latin9", "cyr", "jp")])
                swarm["program_codec"] = pc[0]
                for e in init:
                    if e.get("dir") or (not e["text"] and rng.random() < 0.5):
                        continue
                    body = "".join(l for l in e["text"].splitlines(True) if not l.startswith("note = "))
                    # (the first definition may follow the header directly, with or without a shebang)
                    head = rng.choice(["# -*- coding: %s -*-\n# %s\n", "#!/usr/bin/env python\n# -*- coding: %s -*-\n# %s\n",
                                       "#!/usr/bin/env python\n# -*- coding: %s -*-\n", "# -*- coding: %s -*-\n"])
                    head = head % ((pc[0], _word(rng, pc[1])) if head.count("%s") == 2 else (pc[0],))
                    if rng.random() < 0.5:
                        body += "note = '%s'\n" % _word(rng, pc[1])
                    text = head + body
                    try:
                        if text.encode(pc[2]).decode(pc[2]) != text:
                            continue
                    except (UnicodeError, LookupError):
                        continue
                    e["text"], e["enc"] = text, pc[2]
                    codecs[e["p"]] = list(pc)
            if rng.random() < 0.6:
                # a module that so far is only its header (shebang, coding line, copyright): the
                # "new module from a template" shape; things are moved into it by refactorings
                codec = rng.choice([c for c in CODECS if c[0] and c[1] in ("latin", "latin9", "cyr", "jp")])
                word = "".join(rng.choice(ALPHABETS[codec[1]]) for _ in range(6)).replace("\n", "")
                head = rng.choice(["#!/usr/bin/env python\n# -*- coding: %s -*-\n# (c) %s\n", "# -*- coding: %s -*-\n# %s\n#\n",
                                   "# -*- coding: %s -*-\n# %s\nHDR = 1\n", "# -*- coding: %s -*-\n"])
                text = head % ((codec[0], word) if head.count("%s") == 2 else (codec[0],))
                try:
                    ok = text.encode(codec[2]).decode(codec[2]) == text and "\r" not in text
                except (UnicodeError, LookupError):
                    ok = False
                if ok:
                    nl = rng.choice(["lf", "crlf"])
                    init.append({"p": "hdr.py", "text": text, "nl": nl, "enc": codec[2]})
                    codecs["hdr.py"] = list(codec)
        else:
            for i in range(swarm["files"]):
                codec = rng.choice(CODECS)
                nl = rng.choice(["lf", "crlf", "cr"])
                text = gen_store_text(rng, codec, nls=(nl,))
                p = "f%d.py" % i if rng.random() < 0.7 else "f%d.txt" % i
                init.append({"p": p, "text": text, "nl": nl, "enc": codec[2]})
                codecs[p] = list(codec)
        nls = {e["p"]: e.get("nl", "lf") for e in init if not e.get("dir")}
        files = [e["p"] for e in init if not e.get("dir")]
        texts = {e["p"]: e["text"] for e in init if not e.get("dir")}
        steps = []
        if swarm["program"] and rng.random() < 0.2:
            swarm["imports_in_place"] = True  # (the pull_imports_to_top preference switched off)
        if swarm["program"] and rng.random() < 0.15:
            # the project tolerates modules it cannot parse (analysed as if empty): one module is
            # left half-typed; requests on it or passing over it must not damage it
            swarm["ignore_syntax_errors"] = True
            cand = [q for q in files if q.endswith(".py") and texts[q]]
            if cand:
                q = rng.choice(cand)
                texts[q] = texts[q] + ("" if texts[q].endswith("\n") else "\n") + "def half_typed(:\n    pass\n"
                steps.append({"op": "edit", "path": q, "text": texts[q], "held": False, "id": 9000})
        w = swarm["w"]
        kinds = [k for k, n in w.items() for _ in range(n)]
        nid = 1
        for _ in range(swarm["steps"]):
            k = rng.choice(kinds)
            p = rng.choice(files)
            held = rng.random() < 0.6
            if k in ("read", "same_write", "same_do"):
                steps.append({"op": k, "path": p, "held": held})
            elif k in ("edit", "file_write") and swarm["program"] and p.endswith(".py"):
                new = prog_edit(rng, texts[p], tuple(codecs[p]))
                steps.append({"op": k, "path": p, "text": new, "held": held, "id": nid})
                texts[p] = new
            elif k == "edit":
                new = edit_of(rng, texts[p], tuple(codecs[p]), (nls.get(p, "lf"),)) if rng.random() < 0.8 else gen_store_text(rng, tuple(codecs[p]), nls=(nls.get(p, "lf"),))
                steps.append({"op": "edit", "path": p, "text": new, "held": held, "id": nid})
                texts[p] = new
            elif k == "file_write":
                new = edit_of(rng, texts[p], tuple(codecs[p]), (nls.get(p, "lf"),)) if rng.random() < 0.7 else gen_store_text(rng, tuple(codecs[p]), nls=(nls.get(p, "lf"),))
                steps.append({"op": "file_write", "path": p, "text": new, "held": held, "id": nid})
                texts[p] = new
            elif k == "recode":
                # an edit that changes the file's own coding line (adds, removes or replaces it)
                ncodec = rng.choice(CODECS)
                ntext = gen_store_text(rng, ncodec, allow_empty=False, nls=(nls.get(p, "lf"),))
                steps.append({"op": "edit", "path": p, "text": ntext, "held": held, "id": nid, "recode": True})
                codecs[p] = list(ncodec)
                texts[p] = ntext
            elif k == "bytes_write":
                # contents handed over as bytes are written verbatim (possibly another newline convention)
                codec = tuple(codecs[p])
                t2 = gen_store_text(rng, codec, allow_empty=False)  # (all conventions: the bytes write picks its own)
                steps.append({"op": "bytes_write", "path": p, "held": held, "text": t2, "nl": rng.choice(["lf", "crlf", "cr"]),
                              "enc": codec[2], "id": nid})
                texts[p] = t2
            elif k == "unencodable":
                # an edit that brings in a character the declared codec cannot hold
                steps.append({"op": "unencodable", "path": p, "held": held, "extra": rng.choice(["日", "Ж", "€", "😀", "é"])})
            elif k == "empty_refill" and not swarm["program"]:
                # a file is emptied and refilled through one File object (which remembers the line ends),
                # the refill is undone, the project reopened, the refill redone
                refill = gen_store_text(rng, tuple(codecs[p]), allow_empty=False, nls=(nls.get(p, "lf"),))
                steps.append({"op": "edit", "path": p, "text": "", "held": True, "id": nid})
                steps.append({"op": "edit", "path": p, "text": refill, "held": True, "id": nid + 5000})
                steps.append({"op": "undo"})
                if rng.random() < 0.8:
                    steps.append({"op": "reopen"})
                steps.append({"op": "redo"})
                texts[p] = refill
            elif k == "unwind":
                n = rng.randint(1, 4)
                mid = [{"op": "reopen"}] if rng.random() < 0.4 else []  # redo from a reloaded redo list
                steps.extend([{"op": "undo"}] * n + mid + [{"op": "redo"}] * n)
            elif k in ("undo", "redo", "reopen"):
                steps.append({"op": k})
            elif k == "flip":
                to = rng.choice(["lf", "crlf", "cr"])
                steps.append({"op": "flip", "path": p, "to": to, "validate": rng.random() < 0.8})
                if _bytes_declare(texts[p], codecs[p][2], codecs[p][0], (to,)):
                    nls[p] = to  # (the flip is skipped at execution if it would hide the coding line)
            elif k == "fail":
                others = [q for q in files if q != p]
                edits = [[p, edit_of(rng, texts[p], tuple(codecs[p]))]]
                if others:
                    q = rng.choice(others)
                    edits.append([q, edit_of(rng, texts[q], tuple(codecs[q]))])
                edits.append([p, edit_of(rng, edits[0][1], tuple(codecs[p]))])
                steps.append({"op": "fail", "edits": edits, "k": rng.randint(1, len(edits)), "id": nid})
            elif k == "refactor" and rng.random() < 0.35:
                ident = rng.choice(["bar", "foo", "add", "run", "make", "K", "Box"])
                src = [q for q in files if re.search(r"^(def|class) %s\b" % ident, texts.get(q, ""), re.M)]
                dests = [q for q in files if q.endswith(".py") and not q.endswith("__init__.py")]
                if "hdr.py" in dests and rng.random() < 0.7:
                    dests = ["hdr.py"]
                steps.append({"op": "refactor", "kind": "move_global", "path": src[0] if src else p, "ident": ident,
                              "dest": rng.choice(dests) if dests else p, "id": nid})
            elif k == "refactor" and rng.random() < 0.15:
                ch = rng.choice([[["normalize"]], [["remove", 1]], [["reorder", [1, 0]]], [["add", 1, "extra", "None", "0"]],
                                 [["inline_default", 1]], [["add", 0, "first", None, "1"], ["normalize"]], [["remove", 0]]])
                ident = rng.choice(["add", "run", "foo", "make", "meth"])
                src = [q for q in files if re.search(r"^\s*def %s\b" % ident, texts.get(q, ""), re.M)]
                steps.append({"op": "refactor", "kind": "change_signature", "path": src[0] if src else p, "ident": ident, "changers": ch, "id": nid})
            elif k == "refactor" and rng.random() < 0.45:
                r = rng.random()
                pys = [q for q in files if q.endswith(".py")]
                if r < 0.35:
                    steps.append({"op": "refactor", "kind": "organize", "path": rng.choice(pys) if pys else p, "id": nid,
                                  "action": rng.choice(["organize_imports", "organize_imports", "expand_star_imports", "froms_to_imports", "handle_long_imports"])})
                elif r < 0.7:
                    frag = rng.choice(["a + 1", "foo(a)", "foo(self.attr)", "beta.Box(3)", "b.get()", "self.v", "Box(1)", "m1.foo(v) + m1.const", "foo(2)", "k.meth()"])
                    src = [q for q in files if frag in texts.get(q, "")]
                    steps.append({"op": "refactor", "kind": "extract_variable" if rng.random() < 0.7 else "extract_method", "path": src[0] if src else p,
                                  "fragment": frag, "new": rng.choice(gen.NEW_IDENTS) + str(nid), "id": nid})
                else:
                    steps.append({"op": "refactor", "kind": "inline", "path": rng.choice(pys) if pys else p, "ident": rng.choice(["const", "v", "summ", "make", "foo", "k", "thing"]),
                                  "occ": rng.randrange(3), "id": nid})
            elif k == "refactor":
                steps.append({"op": "refactor", "kind": "rename", "path": p, "ident": rng.choice(gen.PROGRAM_IDENTS),
                              "occ": rng.randrange(4), "new": rng.choice(gen.NEW_IDENTS) + str(nid), "id": nid, "docs": False})
            elif k == "create" and swarm["program"]:
                # a new, valid module in the program's own encoding
                codec = next((c for c in CODECS if c[0] == swarm.get("program_codec")), CODECS[0]) if swarm.get("program_codec") else CODECS[0]
                q = "n%d.py" % nid
                text = ("# -*- coding: %s -*-\n" % codec[0] if codec[0] else "") + "# %s\nnv%d = '%s'\n" % (_word(rng, codec[1]), nid, _word(rng, codec[1]))
                try:
                    if text.encode(codec[2]).decode(codec[2]) != text:
                        text = "nv%d = 1\n" % nid
                except (UnicodeError, LookupError):
                    text = "nv%d = 1\n" % nid
                steps.append({"op": "create", "path": q, "text": text, "id": nid})
                nls[q] = "lf"
                files.append(q)
                codecs[q] = list(codec)
                texts[q] = text
            elif k == "create":
                codec = rng.choice(CODECS)
                q = "n%d.py" % nid
                text = gen_store_text(rng, codec, nls=("lf",))
                steps.append({"op": "create", "path": q, "text": text, "id": nid})
                nls[q] = "lf"
                files.append(q)
                codecs[q] = list(codec)
                texts[q] = text
            nid += 1
        return {"init": init, "limit": 100, "steps": steps, "swarm": swarm, "codecs": codecs}

    def run(self, run_seed):
        rng = kernel.rng_for("bytestore", run_seed)
        return self.execute(self.gen_trace(rng))

    def replay(self, trace):
        return self.execute(trace)

    # ------------------------------------------------------------------
    def execute(self, trace):
        out = Outcome(PROP)
        out.trace = trace
        swarm = trace.get("swarm") or {}
        out.swarm = swarm
        prefs = {"automatic_soa": bool(swarm.get("soa", True)), "save_history": True, "save_objectdb": False}
        if swarm.get("ignore_syntax_errors"):
            prefs["ignore_syntax_errors"] = True
        if swarm.get("imports_in_place"):
            prefs["pull_imports_to_top"] = False
        W = World(trace["init"], limit=100, ropefolder=ROPEFOLDER, prefs=prefs, tag="c16-", stamp=True)
        try:
            model = HistoryModel(TreeModel(W.snapshot()), 100)
            held = {}
            lbfree_seen = set()  # paths whose contents had no line break at some point of this history
            bytes_flip_seen = set()  # paths whose convention was changed by a bytes write
            carried = set()  # paths whose held File object has seen a write since it was created
            after_reopen = False
            prefix = []
            codecs = trace.get("codecs", {})
            for i, st in enumerate(trace["steps"]):
                op = st["op"]
                W.use()
                W.clock.advance(1_000_000_000)
                out.evals += 1
                out.stats["step_" + op] += 1
                path = st.get("path")
                cur = model.current()
                for pth, v in cur.files.items():
                    if isinstance(v, bytes) and b"\n" not in v and b"\r" not in v:
                        lbfree_seen.add(pth)
                sig = {"op": op}
                prefix.append(op)
                if path is not None and op != "create" and not cur.is_file(path):
                    out.stats["skipped"] += 1
                    continue
                if path is not None and op != "create":
                    data = cur.files[path]
                    sig.update(nl={"\n": "lf", "\r\n": "crlf", "\r": "cr"}[newline_of(data)], codec=(codecs.get(path) or [None])[0],
                               held=bool(st.get("held")), after_reopen=after_reopen)
                    interesting = (not data.isascii()) or newline_of(data) != "\n" or (data and not data.endswith((b"\n", b"\r")))
                else:
                    interesting = False
                    data = None

                if op in ("edit", "file_write") and data is not None:
                    # precondition (contents round-trip through the codec they declare, under the
                    # convention the file has *now*): some codecs do not for every text
                    conv = st["text"].replace("\n", newline_of(data) if (b"\n" in data or b"\r" in data) else "\n")
                    try:
                        e2 = declared_encoding(conv) or "utf-8"
                        if conv.encode(e2).decode(e2) != conv:
                            raise UnicodeError
                    except (UnicodeError, LookupError):
                        out.stats["skipped_codec_does_not_roundtrip"] += 1
                        continue

                def fobj():
                    if st.get("held"):
                        if path not in held:
                            held[path] = W.project.get_file(path)
                        return held[path]
                    return W.project.get_file(path)

                bad = None
                try:
                    if op == "read":
                        got = fobj().read()
                        want = model_decode(data)
                        if got != want:
                            bad = ("read_mismatch", {"path": path, "got": got[:120], "want": want[:120]})
                    elif op == "same_write":
                        f = fobj()
                        f.write(f.read())
                    elif op == "same_do":
                        from rope.base import change as rc

                        f = fobj()
                        cs = rc.ChangeSet("same%d" % i)
                        cs.add_change(rc.ChangeContents(f, f.read()))
                        W.project.do(cs)
                        model.do({"id": 10000 + i, "desc": "same%d" % i, "ops": [["edit", path, model_decode(data)]]})
                    elif op == "edit":
                        from rope.base import change as rc

                        f = fobj()
                        cs = rc.ChangeSet("cs%d" % st["id"])
                        cs.add_change(rc.ChangeContents(f, st["text"]))
                        W.project.do(cs)
                        model.do({"id": st["id"], "desc": "cs%d" % st["id"], "ops": [["edit", path, st["text"]]]})
                        carried.add(path)
                    elif op == "file_write":
                        f = fobj()
                        if st["text"] != model_decode(data):
                            model.do({"id": st["id"], "desc": "Writing file <%s>" % path, "ops": [["edit", path, st["text"]]]})
                        f.write(st["text"])
                        back = f.read()
                        if back != st["text"]:
                            bad = ("write_read_mismatch", {"path": path, "wrote": st["text"][:120], "read": back[:120]})
                        carried.add(path)
                    elif op == "bytes_write":
                        raw = st["text"].replace("\n", kernel.NL[st["nl"]]).encode(st["enc"])
                        if not _bytes_declare(st["text"], st["enc"], (codecs.get(path) or [None])[0]) or raw == data:
                            out.stats["skipped"] += 1
                            continue
                        f = fobj()
                        f.write(raw)
                        model.do({"id": st["id"], "desc": "Writing file <%s>" % path, "ops": [["bytes", path, raw.decode("latin-1")]]})
                        out.stats["probe_bytes_write"] += 1
                        sig["bytes_write_nl_flip"] = newline_of(raw) != newline_of(data)
                        bytes_flip_seen.add(path) if sig["bytes_write_nl_flip"] else None
                        carried.add(path)
                    elif op == "unencodable":
                        enc = declared_encoding(data.decode("latin-1")) or "utf-8"
                        text = model_decode(data)
                        new_text = text + ("" if text.endswith("\n") or not text else "\n") + "v = '%s'\n" % st["extra"]
                        try:
                            new_text.encode(enc)
                            out.stats["skipped"] += 1
                            continue  # encodable after all: not this step's business
                        except (UnicodeError, LookupError):
                            pass
                        f = fobj()
                        raised = None
                        try:
                            f.write(new_text)
                        except Exception as e:
                            raised = e
                        out.stats["probe_unencodable_edit"] += 1
                        if raised is None:
                            # accepted: then what was written must read back equal
                            back = W.project.get_file(path).read()
                            if back != new_text:
                                bad = ("write_read_mismatch", {"path": path, "wrote": new_text[-60:], "read": back[-60:],
                                                               "msg": "text not encodable in the declared codec was accepted and does not read back equal"})
                            else:
                                model = HistoryModel(TreeModel(W.snapshot()), 100)
                                W.project.history.clear()
                        # refused: the file must be untouched (whole-tree comparison below)
                    elif op == "create":
                        if cur.exists(st["path"]):
                            out.stats["skipped"] += 1
                            continue
                        f = W.project.root.create_file(st["path"])
                        model.do({"id": 20000 + st["id"], "desc": "Creating file <%s>" % st["path"], "ops": [["mkfile", st["path"]]]})
                        if st["text"]:
                            model.do({"id": st["id"], "desc": "Writing file <%s>" % st["path"], "ops": [["edit", st["path"], st["text"]]]})
                            f.write(st["text"])
                    elif op in ("undo", "redo"):
                        r = exec_history_step(W, model, st)
                        if r.exc is not None and not r.info.get("empty"):
                            bad = ("op_raised", {"exc": repr(r.exc)[:200]})
                        if not r.skipped and r.exc is None:
                            sig["carried"] = True
                            interesting_any = any(
                                (not v.isascii()) or newline_of(v) != "\n" for v in model.current().files.values() if isinstance(v, bytes)
                            )
                            if interesting_any:
                                out.nontrivial(prefix, "hist")
                    elif op == "reopen":
                        W.project.close()
                        W.open()
                        held.clear()
                        carried.clear()
                        after_reopen = True
                        out.stats["probe_reopen"] += 1
                    elif op == "flip":
                        # the external editor rewrites the file with another newline convention
                        text = model_decode(data)
                        enc = declared_encoding(data.decode("latin-1")) or "utf-8"
                        nl = kernel.NL[st["to"]]
                        new_bytes = text.replace("\n", nl).encode(enc)
                        # the cookie must still be where Python sees it, else the flip changes the file's meaning
                        if (declared_encoding(new_bytes.decode("latin-1")) or "utf-8").lower() != enc.lower() or new_bytes == data:
                            out.stats["skipped"] += 1
                            continue
                        full = os.path.join(W.root, path)
                        with open(full, "wb") as fh:
                            fh.write(new_bytes)
                        os.utime(full, ns=(W.clock.ns, W.clock.ns))
                        if st.get("validate"):
                            W.project.validate()
                        # history entries no longer describe the file: forget them (public API)
                        W.project.history.clear()
                        model = HistoryModel(TreeModel(W.snapshot()), 100)
                        out.stats["probe_external_flip"] += 1
                        if path in held:
                            out.stats["probe_flip_under_held_file"] += 1
                    elif op == "fail":
                        from rope.base import change as rc

                        edits = [e for e in st["edits"] if cur.is_file(e[0])]
                        if len(edits) < 2:
                            out.stats["skipped"] += 1
                            continue
                        cs = rc.ChangeSet("fail%d" % st["id"])
                        for q, t in edits:
                            fq = held.get(q) if q in held else W.project.get_file(q)
                            cs.add_change(rc.ChangeContents(fq, t))
                        k = min(st["k"], len(edits))
                        W.fs.arm({"kind": "before", "k": k, "errno": "EIO"})
                        raised = None
                        try:
                            W.project.do(cs)
                        except Exception as e:
                            raised = e
                        W.fs.disarm()
                        if raised is None:
                            bad = ("error_not_reported", {"k": k})
                        else:
                            out.stats["fired_write_fault"] += 1
                            if k > 1:
                                out.stats["probe_rollback_restored_bytes"] += 1
                                out.nontrivial(prefix, "rollback")
                    elif op == "refactor":
                        from .. import world as _world

                        _world.LAST_REFUSAL[0] = None
                        changes = compute_refactoring(W.project, st)
                        refusal = _world.LAST_REFUSAL[0]
                        twin_ops = _ascii_twin(W, st, prefs) if swarm.get("program") else None
                        if twin_ops is not None:
                            out.stats["probe_ascii_twin_computed"] += 1
                            real_ops = None
                            if changes is not None and changes.changes:
                                real_ops = {o[1]: _to_ascii(o[2]) for o in abstract_of(changes) if o[0] == "edit"}
                                real_ops["<other>"] = [o[:2] for o in abstract_of(changes) if o[0] != "edit"]
                            comparable = not (real_ops is None and refusal and refusal.startswith(("ModuleSyntaxError", "UnicodeEncodeError", "UnicodeDecodeError")))
                            # (a module that is not valid Python, or text the destination's declared encoding
                            # cannot hold, may become acceptable when its characters are replaced: not comparable)
                            if not comparable:
                                out.stats["probe_ascii_twin_not_comparable"] += 1
                            elif real_ops != twin_ops and (real_ops is not None or twin_ops != "refused"):
                                # a refactoring cuts, pastes and re-indents text; what the characters of string
                                # literals and comments are (ASCII or not) must not change what it does
                                diff = "refused only with the non-ASCII text" if real_ops is None else (
                                    "done only with the non-ASCII text" if twin_ops == "refused" else sorted(
                                        k for k in set(real_ops) | set(twin_ops) if real_ops.get(k) != twin_ops.get(k)))
                                first = diff[0] if isinstance(diff, list) and diff else None
                                bad = ("refactoring_depends_on_non_ascii", {
                                    "kind": st["kind"], "differs": diff, "refusal": refusal,
                                    "with_non_ascii": (real_ops or {}).get(first) if first else None,
                                    "ascii_twin": twin_ops.get(first) if first and isinstance(twin_ops, dict) else None})
                                sig["kind"] = st["kind"]
                        if bad:
                            pass
                        elif changes is None or not changes.changes:
                            out.stats["skipped"] += 1
                            continue
                    if op == "refactor" and not bad:
                        ops = abstract_of(changes)
                        if any(o[0] != "edit" for o in ops):
                            out.stats["skipped"] += 1
                            continue
                        stray = [o[1] for o in ops if "\r" in o[2]]
                        if stray:
                            # texts handed to rope's writer are '\n'-normalised; a bare \r in a
                            # refactoring's output would be doubled by the newline restoration
                            bad = ("refactoring_text_not_normalised", {"paths": stray})
                        changes.description = "rf%d" % st["id"]
                        W.project.do(changes)
                        model.do({"id": st["id"], "desc": "rf%d" % st["id"], "ops": ops})
                        out.stats["probe_refactoring_as_edit"] += 1
                        if st["kind"] == "move_global":
                            out.stats["probe_move_global_done"] += 1
                        # a refactoring edits part of a file: the encoding the file declares (as
                        # Python reads it from the bytes) is part of "everything else"
                        now = W.snapshot()
                        for o in ops:
                            was, new_b = cur.files.get(o[1]), now.get(o[1])
                            if isinstance(was, bytes) and isinstance(new_b, bytes):
                                # (as the interpreter reads it: CR, CRLF and LF all end a line there; the
                                # effective encoding counts, so "none" and an explicit utf-8 are the same)
                                d0, d1 = _effective_encoding(was), _effective_encoding(new_b)
                                if d0 != "utf-8":
                                    out.stats["probe_refactoring_edited_file_with_coding_line"] += 1
                                if d0 != d1 and not bad:
                                    bad = ("refactoring_changed_declared_encoding", {"path": o[1], "before": d0, "after": d1})
                        # ... and so is every non-ASCII character of the files it edits (rope's refactorings
                        # cut, paste and re-indent text; none of them is meant to drop or alter such a character)
                        def _chars(tree):
                            got = set()
                            for o in ops:
                                b = tree.get(o[1])
                                if isinstance(b, bytes):
                                    enc = _effective_encoding(b)
                                    try:
                                        # (characters that only make a line blank, such as U+2029 or a no-break
                                        # space, share the fate of blank lines, which refactorings re-space)
                                        got |= {c for c in b.decode(enc) if ord(c) > 127 and not c.isspace()}
                                    except (UnicodeError, LookupError):
                                        return None
                            return got

                        # ... and every line the request does not concern: lines that do not mention the name /
                        # expression / import the refactoring works on must come through unchanged and in order
                        # (blank lines aside, which refactorings re-space)
                        key = None
                        if st["kind"] in ("rename", "change_signature"):
                            key = st["ident"]
                        elif st["kind"] in ("extract_variable", "extract_method"):
                            key = st["fragment"]
                        elif st["kind"] == "organize" and st.get("action", "organize_imports") in ("organize_imports", "expand_star_imports"):
                            key = "import"
                        elif st["kind"] == "inline" and st["ident"] in ("const", "v", "summ", "k", "thing"):
                            key = st["ident"]
                        if key and not bad:
                            for o in ops:
                                was = cur.files.get(o[1])
                                if not isinstance(was, bytes):
                                    continue
                                try:
                                    old_text = was.decode(_effective_encoding(was)).replace("\r\n", "\n").replace("\r", "\n")
                                except (UnicodeError, LookupError):
                                    continue
                                # (import statements may be rewritten by any refactoring that moves code)
                                keep = [l for l in old_text.split("\n") if l.strip() and key not in l and "import" not in l]
                                it = iter(o[2].split("\n"))
                                lost = [l for l in keep if not any(l == m for m in it)]
                                out.stats["probe_refactoring_line_preservation_checked"] += 1
                                if lost:
                                    bad = ("refactoring_damaged_unrelated_line", {"kind": st["kind"], "path": o[1], "line": lost[0][:120]})
                                    sig["kind"] = st["kind"]
                                    break
                        c0, c1 = _chars(cur.files), _chars(now)
                        if c0:
                            out.stats["probe_refactoring_edited_file_with_non_ascii"] += 1
                        if c0 is not None and not bad and st["kind"] not in ("inline", "change_signature") and (c1 is None or not c0 <= c1):
                            bad = ("refactoring_lost_non_ascii", {"kind": st["kind"], "lost": sorted(c0 - (c1 or set()))[:8]})
                except Exception as e:
                    bad = ("step_raised", {"exc": repr(e)[:300]})
                    sig["exc"] = type(e).__name__
                snap = W.snapshot()
                try:
                    want = model.current().files
                except ModelError as e:
                    # every text the generator hands over was checked to be encodable in its file's declared
                    # encoding; what fails here is a text rope produced (a refactoring's result, or what
                    # File.read() returned and is written back): it cannot be held by that encoding
                    if not bad:
                        bad = ("text_not_encodable_in_declared_encoding", {"error": str(e)[:200]})
                    if model._undo:
                        model._undo.pop()
                    want = snap
                out.log.add(ev="step", i=i, op=op, path=path, tree=kernel.tree_hash(snap), bad=bad[0] if bad else None)
                out.state(kernel.tree_hash(snap))
                if bad:
                    detail = dict(bad[1], step=i, st=_brief(st))
                    out.violate(bad[0], sig, detail, where=i)
                    break
                if snap != want and model._undo:
                    # A file without any line break has no newline convention.
                    # Writing a multi-line text to it may use LF or the
                    # convention the File object remembers from before; accept
                    # exactly those outcomes and let the model follow the file.
                    differing = [k for k in set(snap) | set(want) if snap.get(k) != want.get(k)]
                    last = model._undo[-1]
                    if (
                        op in ("edit", "file_write", "create", "refactor", "same_do")
                        and len(differing) == 1 and isinstance(snap.get(differing[0]), bytes)
                        and isinstance(cur.files.get(differing[0]), bytes)
                        and b"\n" not in cur.files[differing[0]] and b"\r" not in cur.files[differing[0]]
                    ):
                        for o in last["ops"]:
                            if o[0] == "edit" and o[1] == differing[0]:
                                for alt in ("\r\n", "\r"):
                                    try:
                                        if encode_text(o[2], alt) == snap[differing[0]]:
                                            o[3:] = [alt]
                                            out.stats["probe_linebreak_free_file_convention_kept"] += 1
                                    except (UnicodeError, LookupError):
                                        pass
                        want = model.current().files
                if snap != want:
                    differing = [k for k in set(snap) | set(want) if snap.get(k) != want.get(k)]
                    norm = lambda b: b.replace(b"\r\n", b"\n").replace(b"\r", b"\n") if isinstance(b, bytes) else b  # noqa: E731
                    sig["after_reopen"] = after_reopen
                    sig["newline_only"] = all(norm(snap.get(k)) == norm(want.get(k)) for k in differing)
                    sig["passed_linebreak_free"] = all(k in lbfree_seen for k in differing)
                    sig["after_bytes_write_flip"] = all(k in bytes_flip_seen for k in differing)
                    sig["pre_linebreak_free"] = all(
                        isinstance(cur.files.get(k), bytes) and b"\n" not in cur.files[k] and b"\r" not in cur.files[k]
                        for k in differing
                    )
                    out.violate("bytes_mismatch", sig, {"step": i, "st": _brief(st), "tree_diff": kernel.diff_trees(want, snap)}, where=i)
                    break
                if interesting and (op in ("same_write", "same_do", "edit", "file_write") and (st.get("held") and path in carried or after_reopen)):
                    out.nontrivial(prefix, sig.get("nl"), sig.get("codec"))
            out.schedules.add(kernel.short_hash(prefix))
            out.sim_s = W.clock.covered_s()
            out.sample = {"files": [(e["p"], e.get("nl"), e.get("enc")) for e in trace["init"] if not e.get("dir")][:4],
                          "steps": [_brief(s) for s in trace["steps"][:10]]}
        finally:
            W.destroy()
        return out


def _brief(st):
    d = {k: v for k, v in st.items() if k not in ("text", "edits")}
    if "text" in st:
        d["text"] = st["text"][:60]
    if "edits" in st:
        d["edits"] = [[q, t[:30]] for q, t in st["edits"]]
    return d


ENGINE = ByteStoreEngine()
