"""C13 -- a long-lived project answers like a freshly opened one.

Three actors interleaved by the seeded scheduler: an IDE client working
through rope, an external editor changing the directory behind rope's back
(stamped by the simulated mtime clock, with clock faults), and a validator /
query client that warms caches with partial query batteries.  At every clean
checkpoint the full battery is asked of the warm project W and of a brand-new
project F opened on the same directory; the answers must be equal.
"""

from __future__ import annotations

import os
import re
import shutil

from .. import gen, kernel, simfs
from ..world import compute_refactoring
from .base import Engine, Outcome

PROP = "C13"

MODNAMES = ["m1", "m2", "m5", "util", "alpha", "beta", "zeta", "core", "pkg_tools", "libx"]  # (two share a prefix with a package name)
PKGNAMES = ["pkg", "sub", "lib", "app", "pkgs"]
IDENTS = gen.PROGRAM_IDENTS + ["helper", "Thing", "value", "note"]

SNIPPETS = [
    "def helper(x):\n    return x * 2\n",
    "class Thing:\n    size = 3\n\n    def grow(self):\n        return self.size + 1\n",
    "value = 42\n",
    "import m1\n\nres = m1.foo(1)\n",
    "from pkg import m3\n\nq = m3.bar()\n",
    "from beta import Box\n\nb = Box(2)\nn = b.get()\n",
    "import alpha\nimport beta\n\nthing2 = beta.make()\n",
    "def broken(:\n",
    "",
    "from m1 import *\n\nuse = foo(const)\n",
    "import util\n\nzz = util.helper(3)\n",
    "from util import helper, Thing\n\nt = Thing()\ng = t.grow()\n",
    "from helper import *\n\nhu = util()\n",
    "import helper\n\nhv = helper.util\n",
    "from generated.schema import *\n\ngt = table\n",
    "from generated import schema\n\ngs = schema.COLS\n",
    # found only once scripts/tool.txt has become scripts/tool.py (the folder's first module)
    "import tool\n\ntq = tool.util\n",
    # a module that is half-typed (unparsable) at first in some runs, and its importers
    "hx = 1\n\n\ndef hfun():\n    return hx\n",
    "from half import hx, hfun\n\nhy = hx\nhz = hfun()\n",
    "import half\n\nhw = half.hx\n",
    # a library outside the project, found through python_path (present in some runs)
    "import extlib\n\ne1 = extlib.ext_fn(2)\n",
    "from extlib import ExtThing, ext_fn\n\net = ExtThing()\n",
    # types named in docstrings / type comments, defined in another module
    "import beta\n\n\ndef mk(b):\n    \"\"\"\n    :type b: beta.Box\n    :rtype: beta.Box\n    \"\"\"\n    return b\n",
    "from util import Thing\n\n\ndef th(x):\n    \"\"\":type x: Thing\n    :rtype: Thing\n    \"\"\"\n    return x\n\n\nclass Keep:\n    def __init__(self, item):\n        self.item = item  # type: Thing\n",
]

EXT_TEXTS = [
    "def ext_fn(x):\n    return x\n\n\nclass ExtThing:\n    def one(self):\n        return 1\n",
    "import os\n\n\ndef ext_fn(x, y=0):\n    return x + y\n\n\ndef ext_more():\n    return 0\n\n\nclass ExtThing:\n    def one(self):\n        return 1\n\n    def two(self):\n        return 2\n",
    "\n\nclass ExtThing:\n    def uno(self):\n        return 1\n\n\nEXT_CONST = 5\n\n\ndef ext_fn(x):\n    return x\n",
    "def other():\n    return None\n",
]


class _InlineFuture:
    def __init__(self, fn, args, kw):
        try:
            self._r, self._e = fn(*args, **kw), None
        except Exception as e:  # pragma: no cover
            self._r, self._e = None, e

    def result(self, timeout=None):
        if self._e:
            raise self._e
        return self._r


class InlineExecutor:
    """Stub for the process pool of AutoImport.generate_cache: runs the job
    synchronously, in submission order."""

    def __init__(self, *a, **kw):
        pass

    def __enter__(self):
        return self

    def __exit__(self, *a):
        return False

    def submit(self, fn, *args, **kw):
        return _InlineFuture(fn, args, kw)


def _patch_autoimport():
    import rope.contrib.autoimport.sqlite as sq

    sq.ProcessPoolExecutor = InlineExecutor
    sq.as_completed = lambda futs: list(futs)
    return sq


class Sim:
    def __init__(self, init, swarm, out):
        import rope.base.change as rc
        from rope.base.project import Project

        self.out = out
        self.swarm = swarm
        # with a library outside the project the absolute path is part of the system's input
        # (out-of-project resources are named and hashed by it): it must be a function of the run
        self.has_ext = bool(swarm.get("ext"))
        self.dir = kernel.fixed_scratch("c13-" + (swarm.get("key") or "k")) if self.has_ext else kernel.new_scratch("c13-")
        self.root = os.path.join(self.dir, "proj")
        self.ext = os.path.join(self.dir, "extlibs")
        kernel.write_tree(self.root, init)
        self.ext_late = bool(swarm.get("ext_late"))
        if self.has_ext and not self.ext_late:
            os.makedirs(self.ext)
            with open(os.path.join(self.ext, "extlib.py"), "w", encoding="utf-8", newline="") as fh:
                fh.write(EXT_TEXTS[0])
        self.clock = kernel.SimClock()
        rc.time = kernel.TimeShim(self.clock)
        self._stamp_all()
        kernel.reset_rope_globals()
        self.fs = simfs.SimFS(self.root, self.clock, stamp=True)
        # SOA-on variant: static object analysis runs on every write through rope and fills the
        # object-info store; answers that depend on that store are already left out of the battery
        self.prefs = {"automatic_soa": bool(swarm.get("soa", False)),
                      "ignored_resources": ["*.pyc", "*~", ".ropeproject", "generated"]}
        if swarm.get("ignore_syntax_errors"):
            self.prefs["ignore_syntax_errors"] = True
        if self.has_ext:
            self.prefs["python_path"] = [self.ext]
            if not self.ext_late:
                os.utime(os.path.join(self.ext, "extlib.py"), ns=(self.clock.ns, self.clock.ns))
                os.utime(self.ext, ns=(self.clock.ns, self.clock.ns))
        self.W = Project(self.root, fscommands=self.fs, ropefolder=None, **self.prefs)
        self.sq = _patch_autoimport()
        self.use_autoimport = swarm.get("autoimport", True)
        self.ai = None
        if self.use_autoimport:
            import warnings

            with warnings.catch_warnings():
                warnings.simplefilter("ignore")
                self.ai = self.sq.AutoImport(self.W, observe=True, memory=True)
                self.ai.generate_cache()
        self.pending = False  # un-validated external changes exist
        self.pending_paths = set()
        self.pending_kinds = {}
        self.names_seen = set()
        self.stamps = {}  # path -> (stamp_ns, size) of the last external write
        self.taint = {"folder_moved_or_removed": False, "external_change": False, "create_without_write": False,
                      "file_moved_to_ignored_name": False}
        self.copies = 0
        self.graves = []  # paths removed through rope: ("f", path) | ("d", path, [module stems that were inside])

    # -- helpers ------------------------------------------------------------
    def _stamp_all(self):
        for dp, dns, fns in os.walk(self.root):
            for n in fns + [""]:
                p = os.path.join(dp, n) if n else dp
                os.utime(p, ns=(self.clock.ns, self.clock.ns))

    def full(self, rel):
        return os.path.join(self.root, *rel.split("/")) if rel else self.root

    def tree(self):
        return kernel.snapshot(self.root)

    def stamp(self, rel, fault=None, size=None):
        """Stamp an externally touched path with the (possibly faulty) clock."""
        ns = self.clock.ns
        if fault == "back":
            ns = self.clock.ns - 5_000_000_000
        elif fault == "coarse1":
            ns = ns - ns % 1_000_000_000
        elif fault == "coarse2":
            ns = ns - ns % 2_000_000_000
        p = self.full(rel)
        try:
            os.utime(p, ns=(ns, ns))
        except OSError:
            pass
        d = os.path.dirname(p)
        try:
            os.utime(d, ns=(self.clock.ns, self.clock.ns))
        except OSError:
            pass
        return ns

    def destroy(self):
        try:
            if self.ai is not None:
                self.ai.close()
        except Exception:
            pass
        if self.has_ext and "ropesim-fixed" in self.dir:
            kernel.drop_fixed(self.dir)
        else:
            kernel.drop_scratch(self.dir)

    # -- query battery --------------------------------------------------------
    def battery(self, project, ai, which=None, idents=()):
        """Normalised answers.  `which` restricts to a subset of sections."""
        from rope.base import exceptions
        from rope.contrib import findit

        res = {}

        def want(k):
            return which is None or k in which

        if want("files"):
            res["files"] = sorted(r.path for r in project.get_files())
            res["python_files"] = sorted(r.path for r in project.get_python_files())
        pyfiles = sorted(project.get_python_files(), key=lambda r: r.path)
        if want("find_module"):
            fm = {}
            for name in sorted(self.names_seen):
                try:
                    r = project.find_module(name)
                    fm[name] = r.path if r is not None else None
                except Exception as e:
                    fm[name] = "exc:" + type(e).__name__
            res["find_module"] = fm
        if want("modules"):
            mods = {}
            for r in pyfiles:
                mods[r.path] = self._module_view(project, r)
            res["modules"] = mods
        if want("occurrences"):
            occ = {}
            for ident in idents:
                for r in pyfiles:
                    try:
                        text = r.read()
                    except Exception:
                        continue
                    m = re.search(r"\b%s\b" % re.escape(ident), text)
                    if not m:
                        continue
                    key = "%s@%s:%d" % (ident, r.path, m.start())
                    try:
                        locs = findit.find_occurrences(project, r, m.start())
                        occ[key] = sorted((l.resource.path, l.offset, bool(l.unsure)) for l in locs)
                    except exceptions.RopeError as e:
                        occ[key] = "rope:" + type(e).__name__
                    except Exception as e:
                        occ[key] = "exc:" + type(e).__name__
                    break
            res["occurrences"] = occ
        if want("autoimport") and ai is not None:
            a = {}
            try:
                a["all_names"] = sorted(set(x[0] for x in ai.get_all_names()))
                for ident in sorted(set(idents) | {"foo", "Box", "helper"}):
                    a["search:" + ident] = sorted(ai.search(ident, exact_match=True))
                    a["modules:" + ident] = sorted(ai.get_modules(ident))
            except Exception as e:
                a["exc"] = type(e).__name__ + ":" + str(e)[:80]
            res["autoimport"] = a
        return res

    def _module_view(self, project, r):
        from rope.base import exceptions

        try:
            pm = project.get_pymodule(r)
        except exceptions.ModuleSyntaxError:
            return "syntax-error"
        except Exception as e:
            return "exc:" + type(e).__name__
        view = {"source": kernel.short_hash(pm.source_code)}
        try:
            attrs = pm.get_attributes()
        except Exception as e:
            view["attrs"] = "exc:" + type(e).__name__
            return view
        names = {}
        for name in sorted(attrs):
            names[name] = self._name_view(attrs[name])
        view["names"] = names
        return view

    def _name_view(self, pyname):
        """Definition location plus the *structural* part of the inferred
        object.  Rope's return-value inference is order dependent even on a
        brand-new project (asking about an importing module first leaves
        'unknown' cached where asking about the imported one first infers a
        type), so what a call returns is not an answer a fresh project gives
        uniquely; it is left out (recorded as 'opaque')."""
        from rope.base import pyobjects

        out = {}
        try:
            mod, line = pyname.get_definition_location()
            res = mod.get_resource() if mod is not None else None
            out["def"] = [self._rp(res), line]
        except Exception as e:
            out["def"] = "exc:" + type(e).__name__
        try:
            obj = pyname.get_object()
            if isinstance(obj, pyobjects.AbstractModule):
                r = obj.get_resource() if hasattr(obj, "get_resource") else None
                out["obj"] = ["module", self._rp(r), sorted(obj.get_attributes().keys())[:60]]
            elif isinstance(obj, pyobjects.AbstractClass):
                out["obj"] = ["class", sorted(obj.get_attributes().keys())[:60]]
            elif isinstance(obj, pyobjects.AbstractFunction):
                try:
                    params = list(obj.get_param_names())
                except Exception:
                    params = None
                out["obj"] = ["function", params]
                if isinstance(obj, pyobjects.PyFunction):
                    out["hints"] = self._hint_view(obj, params or [])
            else:
                # instances: what an assignment's right-hand side evaluates to
                # goes through return-value inference and the object-info
                # store that static inference itself fills as a side effect
                # (accumulated knowledge: by design more than a fresh project has)
                out["obj"] = "opaque"
        except Exception as e:
            from rope.base import pynames

            if isinstance(pyname, (pynames.DefinedName, pynames.ImportedModule)):
                out["obj"] = "exc:" + type(e).__name__
            else:
                out["obj"] = "opaque"  # inference of a value failed: inference-dependent, not compared
        return out

    def _rp(self, res):
        """Project-relative path; a resource outside the project by its file name."""
        if res is None:
            return None
        if res.real_path.startswith(self.ext + os.sep):
            return "ext:" + os.path.basename(res.real_path)
        return res.path

    def _hint_view(self, pyfunction, params):
        """The classes a function's docstring / comment type hints resolve to (what completion
        on a hinted parameter or return value offers): name, defining module, attribute names."""
        from rope.base import pyobjects
        from rope.base.oi.type_hinting.factory import get_type_hinting_factory

        def cls_view(t):
            if t is None:
                return None
            if isinstance(t, pyobjects.AbstractClass):
                try:
                    m = t.get_module() if hasattr(t, "get_module") else None
                    r = m.get_resource() if m is not None else None
                except Exception:
                    r = None
                try:
                    return [t.get_name(), self._rp(r), sorted(t.get_attributes().keys())[:60]]
                except Exception as e:
                    return "exc:" + type(e).__name__
            return "other"

        out = {}
        try:
            doc = pyfunction.get_doc() or ""
        except Exception:
            doc = ""
        if ":type" not in doc and ":rtype" not in doc:
            return None
        try:
            f = get_type_hinting_factory(pyfunction.pycore.project)
            out["return"] = cls_view(f.make_return_provider()(pyfunction))
            pp = f.make_param_provider()
            for name in params[:4]:
                out["param:" + name] = cls_view(pp(pyfunction, name))
        except Exception as e:
            out["exc"] = type(e).__name__
        self.out.stats["probe_hint_resolved"] += 1 if any(isinstance(v, list) for v in out.values()) else 0
        return out

    def confirm_module(self, path, warm_view):
        """A disagreement about one module's view is only staleness if no
        brand-new project gives the warm answer: ask two more brand-new
        projects, one about this module alone and one about every other module
        first.  Returns True if the disagreement stands."""
        import rope.base.project as rp
        from rope.base.project import Project

        saved = rp.NoProject._no_project
        try:
            for order in ("alone", "others_first", "reverse"):
                rp.NoProject._no_project = None
                F = Project(self.root, ropefolder=None, **self.prefs)
                pyfiles = sorted(F.get_python_files(), key=lambda r: r.path)
                target = [r for r in pyfiles if r.path == path]
                if not target:
                    return True
                if order == "others_first":
                    for r in pyfiles:
                        if r.path != path:
                            self._module_view(F, r)
                elif order == "reverse":
                    for r in reversed(pyfiles):
                        self._module_view(F, r)
                if self._module_view(F, target[0]) == warm_view:
                    return False
            return True
        finally:
            rp.NoProject._no_project = saved

    def fresh_battery(self, idents):
        """The same battery on a brand-new project on the same directory (and,
        for the auto-import index, on a byte-identical sibling copy)."""
        import warnings

        import rope.base.project as rp
        from rope.base.project import Project

        saved = rp.NoProject._no_project
        rp.NoProject._no_project = None
        try:
            F = Project(self.root, ropefolder=None, **self.prefs)
            res = self.battery(F, None, which={"files", "find_module", "modules", "occurrences"}, idents=idents)
            if self.ai is not None:
                self.copies += 1
                cdir = os.path.join(self.dir, "copy%d" % self.copies)
                croot = os.path.join(cdir, "proj")
                shutil.copytree(self.root, croot)
                try:
                    F2 = Project(croot, ropefolder=None, **self.prefs)
                    with warnings.catch_warnings():
                        warnings.simplefilter("ignore")
                        ai2 = self.sq.AutoImport(F2, observe=False, memory=True)
                        ai2.generate_cache()
                    res.update(self.battery(F2, ai2, which={"autoimport"}, idents=idents))
                    ai2.close()
                finally:
                    shutil.rmtree(cdir, ignore_errors=True)
            return res
        finally:
            rp.NoProject._no_project = saved

    # -- step execution -------------------------------------------------------
    def note_names(self):
        for p in self.tree():
            if p.endswith(".py"):
                mod = p[:-3].replace("/", ".")
                if mod.endswith(".__init__"):
                    mod = mod[: -len(".__init__")]
                self.names_seen.add(mod)
                self.names_seen.add(mod.split(".")[-1])
            elif "." not in p.split("/")[-1]:
                self.names_seen.add(p.replace("/", "."))
            elif p.endswith(".txt"):
                self.names_seen.add(p.split("/")[-1][:-4])  # (may become a module by renaming)

    def exec(self, st, i):
        """Execute one concrete step.  Total: a step whose precondition does
        not hold on the real tree is skipped."""
        from rope.base import exceptions, libutils
        from rope.contrib import generate

        out = self.out
        self.clock.advance(st.get("dt", 1_000_000_000))
        a = st["a"]
        out.stats["step_" + a] += 1
        W = self.W
        t = self.tree()
        isfile = lambda p: isinstance(t.get(p), bytes)  # noqa: E731
        isdir = lambda p: p == "" or t.get(p) == kernel.DIR  # noqa: E731
        parent = lambda p: p.rsplit("/", 1)[0] if "/" in p else ""  # noqa: E731
        outcome = "ok"
        try:
            # ---------------- client, through rope
            if a == "c_write":
                if not isfile(st["p"]) or self.pending_paths & {st["p"]}:
                    return "skip"
                W.get_file(st["p"]).write(st["text"])
                if st["p"].endswith(".py") and not st["p"].endswith("__init__.py"):
                    self.last_written = st["p"]
            elif a == "c_create_module":
                if not isdir(st["dir"]) or (st["dir"] + "/" if st["dir"] else "") + st["name"] + ".py" in t:
                    return "skip"
                if self._clash(t, (st["dir"] + "/" if st["dir"] else "") + st["name"] + ".py"):
                    return "skip"
                if self._pending_under((st["dir"] + "/" if st["dir"] else "") + st["name"] + ".py"):
                    return "skip"  # the client does not work on paths with un-validated external changes
                generate.create_module(W, st["name"], W.get_folder(st["dir"]) if st["dir"] else None)
                if st.get("text") is not None:
                    W.get_file((st["dir"] + "/" if st["dir"] else "") + st["name"] + ".py").write(st["text"])
                else:
                    self.taint["create_without_write"] = True
            elif a == "c_create_package":
                path = (st["dir"] + "/" if st["dir"] else "") + st["name"]
                if not isdir(st["dir"]) or path in t or self._clash(t, path) or self._pending_under(path):
                    return "skip"
                generate.create_package(W, st["name"], W.get_folder(st["dir"]) if st["dir"] else None)
            elif a == "c_move":
                if st["p"] not in t or not isdir(st["dest"]) or st["dest"] == st["p"] or st["dest"].startswith(st["p"] + "/"):
                    return "skip"
                target = (st["dest"] + "/" if st["dest"] else "") + st["p"].split("/")[-1]
                if target in t or self._pending_under(st["p"]) or self._pending_under(target) or self._clash(t, target):
                    return "skip"
                if st["p"].endswith("__init__.py"):
                    return "skip"  # a package's __init__.py is not moved on its own
                if isdir(st["p"]):
                    self.taint["folder_moved_or_removed"] = True
                elif not st["p"].endswith(".py"):
                    self.taint["file_moved_to_ignored_name"] = True  # (a non-module file: the index adds it on a move, known)
                W.get_resource(st["p"]).move(st["dest"])
            elif a == "c_rename_to_ignored":
                # e.g. keeping a backup copy: notes.py -> notes.py~ (matches the default ignored_resources)
                if not isfile(st["p"]) or self._pending_under(st["p"]) or (st["p"] + "~") in t or st["p"].endswith("__init__.py"):
                    return "skip"
                W.get_resource(st["p"]).move(st["p"] + "~")
                self.taint["file_moved_to_ignored_name"] = True
                out.stats["probe_moved_to_ignored_name"] += 1
            elif a == "c_rename_file":
                # rename a file through rope, possibly turning a non-module into a module or back
                if not isfile(st["p"]) or st["q"] in t or not isdir(parent(st["q"])) or self._pending_under(st["p"]) or self._pending_under(st["q"]):
                    return "skip"
                if st["p"].endswith("__init__.py") or st["q"].endswith("__init__.py"):
                    return "skip"
                if st["q"].endswith(".py") and self._clash(t, st["q"]):
                    return "skip"
                if not st["q"].endswith(".py") or not st["p"].endswith(".py"):
                    pass
                W.get_resource(st["p"]).move(st["q"])
                out.stats["probe_rename_file_extension_change"] += 1
            elif a == "c_remove":
                if st["p"] not in t or self._pending_under(st["p"]):
                    return "skip"
                if isdir(st["p"]):
                    self.graves.append(["d", st["p"], sorted(q[len(st["p"]) + 1:-3] for q in t if q.startswith(st["p"] + "/")
                                                              and q.endswith(".py") and "/" not in q[len(st["p"]) + 1:] and not q.endswith("__init__.py"))])
                elif st["p"].endswith(".py") and not st["p"].endswith("__init__.py"):
                    self.graves.append(["f", st["p"]])
                if isdir(st["p"]):
                    self.taint["folder_moved_or_removed"] = True
                elif not st["p"].endswith(".py"):
                    self.taint["file_moved_to_ignored_name"] = True  # (non-module file handled as module 'stem': known)
                W.get_resource(st["p"]).remove()
            elif a == "c_refactor":
                if self.pending:
                    return "skip"
                changes = compute_refactoring(W, st)
                if changes is None or not changes.changes:
                    return "skip"
                from rope.base import change as rc

                def has_folder_move(c):
                    if isinstance(c, rc.ChangeSet):
                        return any(has_folder_move(x) for x in c.changes)
                    return isinstance(c, rc.MoveResource) and c.resource.is_folder()

                if self._moves_clash(t, changes):
                    return "skip"
                if has_folder_move(changes):
                    self.taint["folder_moved_or_removed"] = True
                W.do(changes)
                out.stats["probe_refactoring_done"] += 1
            elif a == "c_move_module":
                if self.pending or not isfile(st["p"]) or not isdir(st["dest"]) or not isfile((st["dest"] + "/" if st["dest"] else "") + "__init__.py"):
                    return "skip"
                from rope.refactor import move

                try:
                    mover = move.create_move(W, W.get_resource(st["p"]))
                    changes = mover.get_changes(W.get_folder(st["dest"]))
                except exceptions.RopeError:
                    return "skip"
                except Exception:
                    return "skip"  # internal errors on odd requests are C09's business
                if (st["dest"] + "/" if st["dest"] else "") + st["p"].split("/")[-1] in t or self._moves_clash(t, changes):
                    return "skip"
                W.do(changes)
                out.stats["probe_move_module_done"] += 1
            elif a == "c_to_package":
                if self.pending or not isfile(st["p"]) or not st["p"].endswith(".py") or st["p"].endswith("__init__.py"):
                    return "skip"
                if st["p"][:-3] in t:
                    return "skip"
                from rope.refactor import topackage

                try:
                    changes = topackage.ModuleToPackage(W, W.get_resource(st["p"])).get_changes()
                except exceptions.RopeError:
                    return "skip"
                W.do(changes)
                out.stats["probe_module_to_package_done"] += 1
            elif a == "c_undo":
                if self.pending or not W.history.undo_list or not self._applicable(W.history.undo_list[-1], "undo"):
                    return "skip"
                if any(self._cs_has_folder(c) for c in W.history.undo_list[-1:]):
                    self.taint["folder_moved_or_removed"] = True
                if self._cs_moves_ignored(W.history.undo_list[-1]):
                    self.taint["file_moved_to_ignored_name"] = True
                W.history.undo()
            elif a == "c_redo":
                if self.pending or not W.history.redo_list or not self._applicable(W.history.redo_list[-1], "redo"):
                    return "skip"
                if any(self._cs_has_folder(c) for c in W.history.redo_list[-1:]):
                    self.taint["folder_moved_or_removed"] = True
                if self._cs_moves_ignored(W.history.redo_list[-1]):
                    self.taint["file_moved_to_ignored_name"] = True
                W.history.redo()
            # ---------------- external editor, behind rope's back
            elif a == "e_edit":
                if not isfile(st["p"]):
                    return "skip"
                data = st["text"].encode("utf-8")
                full = self.full(st["p"])
                old = t[st["p"]]
                if st.get("same_size"):
                    # an edit that keeps the file's size: one digit becomes another
                    digits = [k for k, c in enumerate(old) if 48 <= c <= 57]
                    if not digits:
                        return "skip"
                    k = digits[st["same_size"] % len(digits)]
                    data = old[:k] + bytes([48 + (old[k] - 48 + 1) % 10]) + old[k + 1:]
                    out.stats["probe_same_size_external_edit"] += 1
                if data == old:
                    data += b"\n# touched\n"
                # the change indicator is the (mtime, size) pair: an edit that
                # preserves both is outside what validation can see (assumption)
                ns_probe = self._probe_ns(st.get("fault"))
                prev = (os.stat(full).st_mtime_ns, len(old))
                while (ns_probe, len(data)) == prev or (int(ns_probe / 1e9 * 1e6), len(data)) == (int(prev[0] / 1e9 * 1e6), prev[1]):
                    data += b"#"
                if st.get("mode") == "atomic":
                    tmp = full + ".swp"
                    with open(tmp, "wb") as fh:
                        fh.write(data)
                    os.replace(tmp, full)
                else:
                    with open(full, "wb") as fh:
                        fh.write(data)
                self.stamp(st["p"], st.get("fault"))
                self._ext(st["p"], text_old=old)
                self.last_edit = (st["p"], old)
            elif a == "e_create":
                if st["p"] in t or not isdir(parent(st["p"])) or self._clash(t, st["p"]):
                    return "skip"
                with open(self.full(st["p"]), "wb") as fh:
                    fh.write(st["text"].encode("utf-8"))
                self.stamp(st["p"], st.get("fault"))
                self._ext(st["p"])
            elif a == "e_mkpkg":
                if st["p"] in t or not isdir(parent(st["p"])) or self._clash(t, st["p"]):
                    return "skip"
                os.mkdir(self.full(st["p"]))
                with open(self.full(st["p"] + "/__init__.py"), "wb") as fh:
                    fh.write(b"")
                self.stamp(st["p"] + "/__init__.py")
                self.stamp(st["p"])
                self._ext(st["p"])
            elif a == "e_delete":
                if st["p"] not in t:
                    return "skip"
                if isdir(st["p"]):
                    shutil.rmtree(self.full(st["p"]))
                    self.taint["folder_moved_or_removed"] = True
                else:
                    os.unlink(self.full(st["p"]))
                self.stamp(parent(st["p"]))
                self._ext(st["p"])
            elif a == "e_rename":
                if st["p"] not in t or st["q"] in t or not isdir(parent(st["q"])) or st["q"].startswith(st["p"] + "/") or self._clash(t, st["q"]):
                    return "skip"
                if isdir(st["p"]):
                    self.taint["folder_moved_or_removed"] = True
                os.rename(self.full(st["p"]), self.full(st["q"]))
                self.stamp(st["q"])
                self.stamp(parent(st["p"]))
                self._ext(st["p"])
                self._ext(st["q"])
            elif a == "e_ext_edit":
                # the library outside the project is upgraded / edited behind rope's back
                if not self.has_ext:
                    return "skip"
                full = os.path.join(self.ext, "extlib.py")
                data = st["text"].encode("utf-8")
                if not os.path.exists(full):
                    # the library is installed only now (the python_path entry named a folder that did not exist)
                    os.makedirs(self.ext, exist_ok=True)
                    with open(full, "wb") as fh:
                        fh.write(b"")
                    os.utime(full, ns=(self.clock.ns - 7_000_000_000, self.clock.ns - 7_000_000_000))
                    out.stats["probe_external_library_installed_late"] += 1
                old = open(full, "rb").read()
                ns_probe = self._probe_ns(st.get("fault"))
                prev = (os.stat(full).st_mtime_ns, len(old))
                if data == old:
                    data += b"\n# touched\n"
                while (ns_probe, len(data)) == prev or (int(ns_probe / 1e9 * 1e6), len(data)) == (int(prev[0] / 1e9 * 1e6), prev[1]):
                    data += b"#"
                with open(full, "wb") as fh:
                    fh.write(data)
                os.utime(full, ns=(ns_probe, ns_probe))
                # only a validation of the whole project covers resources outside it
                self.pending = True
                self.pending_paths.add("<ext>")
                self.pending_kinds.setdefault("<ext>", set()).add("edit")
                self.taint["external_change"] = True
                out.stats["fired_external_change"] += 1
                out.stats["probe_external_library_edited"] += 1
            elif a == "e_touch":
                if not isfile(st["p"]):
                    return "skip"
                self.stamp(st["p"], st.get("fault"))
                out.stats["probe_touch_without_change"] += 1
            # ---------------- validator
            elif a == "v_validate":
                folder = st.get("folder") or ""
                if folder and not isdir(folder):
                    folder = ""
                # the folder must cover every pending change to count as validation
                if folder and any(not (p == folder or p.startswith(folder + "/")) for p in self.pending_paths):
                    # (a pending '' means the root listing changed: only a root validate covers it)
                    W.validate(W.get_folder(folder))
                    out.stats["partial_validate"] += 1
                else:
                    W.validate(W.get_folder(folder) if folder else None)
                    if self.pending:
                        out.stats["probe_validate_with_pending_changes"] += 1
                    self.pending = False
                    self.pending_paths.clear()
                    self.pending_kinds.clear()
            elif a == "v_report":
                # libutils.report_change for the single most recent external edit
                le = getattr(self, "last_edit", None)
                # report_change announces a content change of one known file, nothing else
                if not le or self.pending_paths != {le[0]} or not isfile(le[0]) or self.pending_kinds.get(le[0]) != {"edit"}:
                    return "skip"
                libutils.report_change(W, self.full(le[0]), le[1].decode("utf-8", "replace"))
                self.pending = False
                self.pending_paths.clear()
                self.pending_kinds.clear()
                out.stats["probe_report_change"] += 1
            # ---------------- observer (cache warming)
            elif a == "q_subset":
                self.note_names()
                self.battery(W, self.ai, which=set(st["which"]), idents=st.get("idents", ()))
                out.stats["probe_warm_query"] += 1
            else:
                raise kernel.HarnessError("unknown step %r" % (st,))
        except kernel.HarnessError:
            raise
        except Exception as e:
            outcome = "exc:" + type(e).__name__
            self.last_exc = e
        return outcome

    def _probe_ns(self, fault):
        ns = self.clock.ns
        if fault == "back":
            return ns - 5_000_000_000
        if fault == "coarse1":
            return ns - ns % 1_000_000_000
        if fault == "coarse2":
            return ns - ns % 2_000_000_000
        return ns

    def _ext(self, p, text_old=None):
        self.pending = True
        self.pending_paths.add(p)
        self.pending_kinds.setdefault(p, set()).add("edit" if text_old is not None else "structure")
        if text_old is None:
            # creating/deleting/renaming an entry also changes the containing
            # folder (its listing): validation has to cover that folder too
            self.pending_paths.add(p.rsplit("/", 1)[0] if "/" in p else "")
        self.taint["external_change"] = True
        self.out.stats["fired_external_change"] += 1

    def _pending_under(self, p):
        return any(q == p or q.startswith(p + "/") or p.startswith(q + "/") for q in self.pending_paths)

    def _applicable(self, c, direction):
        """Undo/redo only make sense if the external editor has not meanwhile
        removed what they edit or occupied where they move to (that would be
        using the history on a tree it does not describe: caller error)."""
        from rope.base import change as rc

        if isinstance(c, rc.ChangeSet):
            return all(self._applicable(x, direction) for x in c.changes)
        if isinstance(c, rc.ChangeContents):
            return c.resource.exists() and not c.resource.is_folder() == os.path.isdir(c.resource.real_path)
        if isinstance(c, rc.MoveResource):
            src, dst = (c.new_resource, c.resource) if direction == "undo" else (c.resource, c.new_resource)
            return src.exists() and not dst.exists() and not self._clash(self.tree(), dst.path)
        if isinstance(c, rc.CreateResource):
            return c.resource.exists() if direction == "undo" else (not c.resource.exists() and c.resource.parent.exists())
        if isinstance(c, rc.RemoveResource):
            return direction == "redo" and c.resource.exists()
        return True

    def _clash(self, t, path):
        """A module file and a package of the same dotted name side by side
        (x.py next to x/): Python itself shadows one of them and the name index
        is keyed by dotted name; the workload stays away from that layout."""
        if path.endswith(".py"):
            return path[:-3] in t
        return path + ".py" in t

    def _moves_clash(self, t, c):
        from rope.base import change as rc

        if isinstance(c, rc.ChangeSet):
            return any(self._moves_clash(t, x) for x in c.changes)
        if isinstance(c, rc.MoveResource):
            return self._clash(t, c.new_resource.path) or c.new_resource.path in t
        return False

    def _cs_moves_ignored(self, c):
        from rope.base import change as rc

        if isinstance(c, rc.ChangeSet):
            return any(self._cs_moves_ignored(x) for x in c.changes)
        return isinstance(c, rc.MoveResource) and not c.resource.is_folder() and (
            not c.resource.path.endswith(".py") or not c.new_resource.path.endswith(".py"))

    def _cs_has_folder(self, c):
        from rope.base import change as rc

        if isinstance(c, rc.ChangeSet):
            return any(self._cs_has_folder(x) for x in c.changes)
        res = getattr(c, "resource", None)
        return res is not None and res.is_folder()

    def heal_autoimport(self):
        import warnings

        if self.ai is not None:
            with warnings.catch_warnings():
                warnings.simplefilter("ignore")
                self.ai.clear_cache()
                self.ai.generate_cache()
        for k in self.taint:
            self.taint[k] = False


class CoherenceEngine(Engine):
    prop = PROP
    name = "coherence"
    level = "exploration"
    tiers = {
        "quick": {"runs": 4000, "wall": 170},
        "thorough": {"runs": 150000, "wall": 1800},
    }
    components_real = [
        "rope.base.project.Project (file list cache, find_module)", "rope.base.pycore (_ModuleCache, observers)",
        "rope.base.resourceobserver (FilteredResourceObserver, real ChangeIndicator reading real st_mtime/st_size)",
        "rope.base.pyobjects/pyobjectsdef/pynames (concluded data, import resolution, inference)",
        "rope.contrib.findit.find_occurrences", "rope.contrib.autoimport.sqlite.AutoImport (real sqlite, in memory)",
        "rope.refactor.rename / move as client operations", "rope.base.libutils.report_change", "kernel tmpfs",
    ]
    components_stub = [
        "external editor actor (direct os calls on the project directory)",
        "mtime clock: every mutation is stamped with the simulated clock via os.utime, with injected faults "
        "(backward jump, 1 s / 2 s granularity, same tick)",
        "AutoImport.generate_cache's process pool replaced by an inline executor",
        "brand-new project for the auto-import comparison runs on a byte-identical sibling copy (in-memory sqlite "
        "databases are shared by project path)",
    ]
    assumptions = [
        "an external modification changes the file's (mtime, size) pair (rope's change indicator by design)",
        "automatic_soa is off and no static object analysis is run: accumulated object information makes a "
        "long-lived project answer more than a fresh one by design",
        "queries are compared only when no un-validated external change is pending",
        "out-of-project modules are not mutated",
    ]
    rule = (
        "cases = seeded schedules interleaving client operations through rope (write, create module/package, move, "
        "remove, rename / move-module refactorings, undo, redo), external editor operations (edit in place / atomic "
        "save, create, delete file or tree, rename, touch) with mtime-clock faults, validate (root or subfolder) / "
        "report_change, and cache-warming partial query batteries; one evaluation = one step or one checkpoint "
        "comparison (full battery on the warm project vs a brand-new project); non-trivial = a checkpoint reached "
        "with >=1 module in the warm module cache and >=1 mutation since the previous checkpoint; distinct = by "
        "(actor/op sequence since start, set of warmed sections)"
    )

    # ------------------------------------------------------------------
    def gen_swarm(self, rng):
        return {
            "steps": rng.choice([6, 10, 16, 24]),
            "autoimport": rng.random() < 0.7,
            "w_client": rng.choice([2, 4, 6]),
            "w_editor": rng.choice([0, 2, 4]),
            "w_validate": rng.choice([1, 2]),
            "w_query": rng.choice([1, 3, 5]),
            "check_every": rng.choice([1, 2, 4]),
            "faults": rng.choice([[None], [None, "back"], [None, "coarse1", "coarse2"], [None, "back", "coarse1", "same"]]),
            "burst": rng.random() < 0.4,
            "soa": rng.random() < 0.3,
            "ext": rng.random() < 0.3,
            "ext_late": rng.random() < 0.35,
            "ignore_syntax_errors": rng.random() < 0.2,
        }

    def gen_step(self, rng, sim, swarm):
        t = sim.tree()
        files = sorted(p for p, v in t.items() if isinstance(v, bytes))
        pyfiles = [p for p in files if p.endswith(".py")]
        dirs = [""] + sorted(p for p, v in t.items() if v == kernel.DIR)
        pkgs = [d for d in dirs if d and d + "/__init__.py" in t]
        actors = ["client"] * swarm["w_client"] + ["editor"] * swarm["w_editor"] + ["validate"] * swarm["w_validate"] + ["query"] * swarm["w_query"]
        if sim.pending:
            actors += ["validate"] * 3
        actor = rng.choice(actors)
        dt = rng.choice([1_000_000_000, 1_000_000_000, 10_000_000, 3_000_000_000, 0 if "same" in swarm["faults"] else 500_000_000])

        def newname(dirpath, pool, suffix=""):
            for _ in range(6):
                n = rng.choice(pool)
                p = (dirpath + "/" if dirpath else "") + n + suffix
                if p not in t:
                    return n
            return "x%d" % rng.randint(0, 999)

        def text(own=""):
            # (a module importing itself makes rope's inference depend on the entry point)
            own = own.rsplit("/", 1)[-1].replace(".py", "")
            pool = [sn for sn in SNIPPETS if not own or not re.search(r"(import|from) %s\b" % re.escape(own), sn)]
            n = rng.randint(1, 3)
            return "".join(rng.choice(pool) for _ in range(n))

        if actor == "client" and getattr(sim, "last_written", None) in t and rng.random() < 0.07:
            return {"a": "c_remove", "p": sim.last_written, "dt": dt}  # a module just rewritten through rope is removed
        if actor == "client" and sim.graves and rng.random() < 0.3:
            # a path that was vacated through rope is occupied again - by a new, not yet written module,
            # by another module renamed to that name, or by a new package of the removed one's name
            g = rng.choice(sim.graves)
            par = lambda q: q.rsplit("/", 1)[0] if "/" in q else ""  # noqa: E731
            if g[0] == "f" and g[1] not in t and (par(g[1]) == "" or par(g[1]) in t):
                others = [q for q in pyfiles if not q.endswith("__init__.py") and q != g[1]]
                if others and rng.random() < 0.35:
                    return {"a": "c_rename_file", "p": rng.choice(others), "q": g[1], "dt": dt}
                return {"a": "c_create_module", "dir": par(g[1]), "name": g[1].rsplit("/", 1)[-1][:-3], "text": None, "dt": dt}
            if g[0] == "d" and g[1] not in t and (par(g[1]) == "" or par(g[1]) in t):
                return {"a": "c_create_package", "dir": par(g[1]), "name": g[1].rsplit("/", 1)[-1], "dt": dt}
            if g[0] == "d" and g[1] in t and g[2]:
                missing = [m for m in g[2] if g[1] + "/" + m + ".py" not in t]
                if missing:
                    return {"a": "c_create_module", "dir": g[1], "name": rng.choice(missing), "text": None, "dt": dt}
        if actor == "client" and "scripts/tool.txt" in t and rng.random() < 0.1:
            return {"a": "c_rename_file", "p": "scripts/tool.txt", "q": "scripts/tool.py", "dt": dt}
        if actor == "client":
            k = rng.choice(["write"] * 4 + ["create_module"] * 2 + ["create_package", "move", "move", "remove", "remove", "refactor", "refactor", "refactor", "move_module", "to_package", "undo", "undo", "redo"])
            if k == "write" and pyfiles:
                p = rng.choice(pyfiles)
                if "generated/schema.py" in t and rng.random() < 0.15:
                    newdefs = rng.choice(["def table():\n    return 2\n\n\nCOLS = 4\nEXTRA = 1\n", "def rows():\n    return 0\n", "COLS = 5\n\n\ndef table():\n    return 3\n\n\ndef view():\n    return table()\n"])
                    return {"a": "c_write", "p": "generated/schema.py", "text": newdefs, "dt": dt}
                cur = t[p].decode("utf-8", "replace")
                new = text(p) if rng.random() < 0.4 else cur + text(p)
                if p.endswith("__init__.py"):
                    new = text(p.rsplit("/", 2)[-2] if "/" in p else "")
                return {"a": "c_write", "p": p, "text": new, "dt": dt}
            if k == "create_module":
                d = rng.choice(dirs)
                nm = newname(d, MODNAMES, ".py")
                return {"a": "c_create_module", "dir": d, "name": nm,
                        "text": text(nm) if rng.random() < 0.85 else None, "dt": dt}
            if k == "create_package":
                d = rng.choice(dirs)
                return {"a": "c_create_package", "dir": d, "name": newname(d, PKGNAMES), "dt": dt}
            if k == "move" and (files or pkgs):
                p = rng.choice(pyfiles + pkgs + [d for d in dirs if d]) if (pyfiles or pkgs) else rng.choice(files)
                return {"a": "c_move", "p": p, "dest": rng.choice(dirs), "dt": dt}
            if k == "remove" and files and rng.random() < 0.35:
                p = rng.choice(files)
                d = rng.choice(dirs)
                stem = rng.choice(MODNAMES + ["helper", "extra"])
                q = (d + "/" if d else "") + stem + (".txt" if p.endswith(".py") and rng.random() < 0.4 else ".py")
                nonmod = [f for f in files if not f.endswith(".py") and not f.endswith("~")]
                if nonmod and rng.random() < 0.5:
                    # a text file becomes a module of the same name (helper.txt -> helper.py)
                    p = rng.choice(nonmod)
                    q = p.rsplit(".", 1)[0] + ".py"
                return {"a": "c_rename_file", "p": p, "q": q, "dt": dt}
            if k == "remove" and getattr(sim, "last_written", None) in t and rng.random() < 0.35:
                # a module that was just rewritten through rope is removed
                return {"a": "c_remove", "p": sim.last_written, "dt": dt}
            if k == "remove" and (files or len(dirs) > 1):
                if files and rng.random() < 0.3:
                    return {"a": "c_rename_to_ignored", "p": rng.choice(files), "dt": dt}
                return {"a": "c_remove", "p": rng.choice(files + dirs[1:]), "dt": dt}
            if k == "refactor" and pyfiles:
                if rng.random() < 0.3:
                    cand = [p for p in pyfiles if not p.endswith("__init__.py")] + pkgs
                    if cand:
                        return {"a": "c_refactor", "kind": "rename_module", "path": rng.choice(cand),
                                "new": rng.choice(MODNAMES + PKGNAMES) + str(rng.randint(0, 9)), "dt": dt}
                return {"a": "c_refactor", "kind": "rename", "path": rng.choice(pyfiles), "ident": rng.choice(IDENTS),
                        "occ": rng.randrange(3), "new": rng.choice(gen.NEW_IDENTS) + str(rng.randint(0, 99)), "dt": dt}
            if k == "move_module" and pyfiles and pkgs:
                return {"a": "c_move_module", "p": rng.choice(pyfiles), "dest": rng.choice(pkgs), "dt": dt}
            if k == "to_package" and pyfiles:
                return {"a": "c_to_package", "p": rng.choice(pyfiles), "dt": dt}
            if k in ("undo", "redo"):
                return {"a": "c_" + k, "dt": dt}
            return {"a": "q_subset", "which": ["files"], "dt": dt}
        if actor == "editor":
            fault = rng.choice(swarm["faults"])
            if fault == "same":
                fault, dt = None, 0
            k = rng.choice(["edit"] * 4 + ["create"] * 2 + ["mkpkg", "delete", "delete", "rename", "rename", "touch"])
            if swarm.get("ext") and rng.random() < 0.3:
                return {"a": "e_ext_edit", "text": rng.choice(EXT_TEXTS), "fault": fault, "dt": dt}
            if k == "edit" and pyfiles:
                p = rng.choice(pyfiles)
                cur = t[p].decode("utf-8", "replace")
                new = text(p) if rng.random() < 0.4 else cur + text(p)
                if p.endswith("__init__.py"):
                    new = text(p.rsplit("/", 2)[-2] if "/" in p else "")
                st = {"a": "e_edit", "p": p, "text": new, "mode": rng.choice(["inplace", "atomic"]), "fault": fault, "dt": dt}
                if rng.random() < 0.2:
                    st["same_size"] = rng.randint(1, 50)
                    st["dt"] = rng.choice([10_000_000, 250_000_000, 500_000_000, dt])
                return st
            if k == "create":
                d = rng.choice(dirs)
                nm = newname(d, MODNAMES, ".py")
                return {"a": "e_create", "p": (d + "/" if d else "") + nm + ".py", "text": text(nm), "fault": fault, "dt": dt}
            if k == "mkpkg":
                d = rng.choice(dirs)
                return {"a": "e_mkpkg", "p": (d + "/" if d else "") + newname(d, PKGNAMES), "dt": dt}
            if k == "delete" and (files or len(dirs) > 1):
                return {"a": "e_delete", "p": rng.choice(files + files + dirs[1:]), "dt": dt}
            if k == "rename" and (files or len(dirs) > 1):
                p = rng.choice(files + dirs[1:])
                d = rng.choice(dirs)
                isd = t.get(p) == kernel.DIR
                q = (d + "/" if d else "") + newname(d, PKGNAMES if isd else MODNAMES, "" if isd else ".py") + ("" if isd else ".py")
                return {"a": "e_rename", "p": p, "q": q, "dt": dt}
            if k == "touch" and files:
                return {"a": "e_touch", "p": rng.choice(files), "fault": fault, "dt": dt}
            return {"a": "q_subset", "which": ["files"], "dt": dt}
        if actor == "validate":
            if rng.random() < 0.12:
                return {"a": "v_report", "dt": dt}
            folder = ""
            if rng.random() < 0.3 and len(dirs) > 1:
                folder = rng.choice(dirs[1:])
            return {"a": "v_validate", "folder": folder, "dt": dt}
        sections = ["files", "find_module", "modules", "occurrences", "autoimport"]
        which = [s for s in sections if rng.random() < 0.5] or ["modules"]
        return {"a": "q_subset", "which": which, "idents": rng.sample(IDENTS, 2), "dt": dt}

    # ------------------------------------------------------------------
    def run(self, run_seed):
        rng = kernel.rng_for("coherence", run_seed)
        swarm = self.gen_swarm(rng)
        swarm["key"] = kernel.short_hash(run_seed)
        init = gen.gen_program(rng)
        for e in init:
            e["nl"] = "lf"
        have = {e["p"] for e in init}
        if swarm.get("ignore_syntax_errors") and rng.random() < 0.7:
            # a module that cannot be parsed yet, imported by another one; it is completed later
            init.append({"p": "half.py", "text": "hx = 1\n\n\ndef hfun(:\n", "nl": "lf", "enc": "utf-8"})
            init.append({"p": "uses_half.py", "text": "import half\nfrom half import hx, hfun\n\nhy = hx\nhz = hfun()\nhw = half.hx\n", "nl": "lf", "enc": "utf-8"})
        if rng.random() < 0.3 and "pkg" in have:
            # modules whose dotted names merely start with a package's name
            if rng.random() < 0.7 and "pkg_tools.py" not in have:
                init.append({"p": "pkg_tools.py", "text": "def tool():\n    return 1\n\n\nTOOLS = 2\n", "nl": "lf", "enc": "utf-8"})
            if rng.random() < 0.5 and "sub_a" not in have and "subxa" not in have:
                # ... and package names that differ only where one has an underscore
                for pk, mod, fn in (("sub_a", "one", "first"), ("subxa", "two", "second")):
                    init.append({"p": pk, "dir": True})
                    init.append({"p": pk + "/__init__.py", "text": "", "nl": "lf", "enc": "utf-8"})
                    init.append({"p": pk + "/" + mod + ".py", "text": "def %s():\n    return 1\n" % fn, "nl": "lf", "enc": "utf-8"})
            if rng.random() < 0.5 and "pkgs" not in have:
                init.append({"p": "pkgs", "dir": True})
                init.append({"p": "pkgs/__init__.py", "text": "", "nl": "lf", "enc": "utf-8"})
                init.append({"p": "pkgs/more.py", "text": "def more():\n    return 2\n", "nl": "lf", "enc": "utf-8"})
        if rng.random() < 0.5:
            # an ignored folder with a module the project imports from
            init.append({"p": "generated", "dir": True})
            init.append({"p": "generated/__init__.py", "text": "", "nl": "lf", "enc": "utf-8"})
            init.append({"p": "generated/schema.py", "text": "def table():\n    return 1\n\n\nCOLS = 3\n", "nl": "lf", "enc": "utf-8"})
        if rng.random() < 0.3:
            # a folder without any module yet; its text file may be renamed to a module through rope
            init.append({"p": "scripts", "dir": True})
            init.append({"p": "scripts/tool.txt", "text": "def util():\n    return 1\n", "nl": "lf", "enc": "utf-8"})
            init.append({"p": "uses_tool.py", "text": "import tool\n\ntq = tool.util\n", "nl": "lf", "enc": "utf-8"})
        if rng.random() < 0.6:
            init.append({"p": "helper.txt", "text": "def util():\n    return 1\n\n\nclass Thing:\n    size = 3\n", "nl": "lf", "enc": "utf-8"})
        return self._go({"init": init, "swarm": swarm, "steps": None}, rng)

    def replay(self, trace):
        return self._go(trace, None)

    def _go(self, trace, rng):
        out = Outcome(PROP)
        swarm = trace["swarm"]
        out.swarm = swarm
        sim = Sim(trace["init"], swarm, out)
        steps_out = []
        try:
            given = trace.get("steps")
            n = swarm["steps"] if given is None else len(given)
            sched = []
            since = 0
            warmed = set()
            i = 0
            while i < n:
                if given is None:
                    st = self.gen_step(rng, sim, swarm)
                    if swarm.get("burst") and st["a"].startswith("e_") and rng.random() < 0.5:
                        st["burst"] = True
                else:
                    st = given[i]
                steps_out.append(st)
                i += 1
                res = sim.exec(st, i)
                out.evals += 1
                sched.append(st["a"])
                if st["a"] == "q_subset" and res == "ok":
                    warmed |= set(st["which"])
                if res == "skip":
                    out.stats["skipped"] += 1
                    out.log.add(ev="step", i=i, a=st["a"], res="skip")
                    continue
                if res.startswith("exc:"):
                    out.stats[res] += 1
                if st["a"][0] in "ce" and res == "ok":
                    since += 1
                snap = sim.tree()
                out.log.add(ev="step", i=i, a=st["a"], res=res, tree=kernel.tree_hash(snap), pending=sim.pending)
                if res.startswith("exc:") and st["a"].startswith("c_"):
                    # a client operation through rope raised; whether the tree
                    # and caches are still coherent is checked below as usual
                    out.stats["client_op_raised"] += 1
                # checkpoint?
                if sim.pending or (i % swarm["check_every"] and i != n):
                    continue
                sim.note_names()
                idents = self._idents_for(i)
                try:
                    bw = sim.battery(sim.W, sim.ai, idents=idents)
                    bf = sim.fresh_battery(idents)
                except kernel.HarnessError:
                    raise
                out.evals += 1
                out.stats["checkpoints"] += 1
                cached = len(sim.W.pycore.module_cache.module_map)
                if cached and since:
                    out.nontrivial(sched, sorted(warmed))
                    out.stats["probe_checkpoint_with_warm_cache_after_mutation"] += 1
                since = 0
                out.state(kernel.tree_hash(snap), kernel.short_hash(bf))
                diffs = _diff_batteries(bw, bf)
                out.log.add(ev="check", i=i, diffs=[d[0] for d in diffs], answers=kernel.short_hash(bf))
                if diffs:
                    heal = False
                    confirmed = []
                    for d in diffs:
                        if d[0] == "modules" and d[1] is not None and not sim.confirm_module(d[1], d[2]):
                            out.stats["probe_order_dependent_answer_not_counted"] += 1
                            continue
                        confirmed.append(d)
                    diffs = confirmed
                    for section, key, w, f in diffs[:6]:
                        sig = {"section": section, "last_op": st["a"]}
                        if section == "autoimport":
                            sig.update(sim.taint)
                            heal = True
                        if isinstance(w, str) and w.startswith("exc:"):
                            sig["warm_exc"] = w
                        out.violate(
                            "stale_answer", sig,
                            {"step": i, "section": section, "key": key, "at": _narrow(w, f)[0],
                             "warm": _s(_narrow(w, f)[1]), "fresh": _s(_narrow(w, f)[2]),
                             "recent_steps": [_brief(s) for s in steps_out[-6:]]},
                            where=i,
                        )
                    if not diffs:
                        pass
                    elif heal and all(d[0] == "autoimport" for d in diffs):
                        sim.heal_autoimport()  # known index staleness: resynchronise and go on
                        out.stats["autoimport_healed"] += 1
                    else:
                        break
            out.trace = {"init": trace["init"], "swarm": swarm, "steps": steps_out}
            out.schedules.add(kernel.short_hash(sched))
            out.sim_s = sim.clock.covered_s()
            out.sample = {"steps": [_brief(s) for s in steps_out[:14]]}
        finally:
            sim.destroy()
        return out

    def _idents_for(self, i):
        k = i % len(IDENTS)
        return [IDENTS[k], IDENTS[(k * 7 + 3) % len(IDENTS)], IDENTS[(k * 3 + 5) % len(IDENTS)]]


def _diff_batteries(w, f):
    diffs = []
    for section in sorted(set(w) | set(f)):
        a, b = w.get(section), f.get(section)
        if a == b:
            continue
        if isinstance(a, dict) and isinstance(b, dict):
            for k in sorted(set(a) | set(b)):
                if a.get(k) != b.get(k):
                    diffs.append((section, k, a.get(k), b.get(k)))
        else:
            diffs.append((section, None, a, b))
    return diffs


def _narrow(w, f, path=""):
    """Descend to the first differing leaf (for readable violation details)."""
    if isinstance(w, dict) and isinstance(f, dict):
        for k in sorted(set(w) | set(f), key=str):
            if w.get(k) != f.get(k):
                return _narrow(w.get(k), f.get(k), path + "/" + str(k))
    return path, w, f


def _s(v):
    s = kernel.canon(v)
    return s if len(s) < 400 else s[:400] + "..."


def _brief(st):
    d = {k: v for k, v in st.items() if k not in ("text", "dt")}
    if "text" in st and st["text"] is not None:
        d["text"] = st["text"][:50]
    return d


ENGINE = CoherenceEngine()
