"""C18 -- an interrupted save never leaves a project that cannot be opened.

One run = one seeded history (C11/C12 vocabulary incl. object-info stores), an
optional earlier clean close (so a previous version exists on disk), more
history, then the real close() executed under a recording file seam.  The
crash dimension is then enumerated exhaustively: process death after every
recorded event and after every byte prefix of every write; each crash state
is materialised and recovered by a brand-new Project.
"""

from __future__ import annotations

import builtins
import hashlib
import os

from .. import gen, kernel, realize
from ..model import HistoryModel, TreeModel, flat_ops
from ..world import World, exec_history_step
from .base import Engine, Outcome
from .reopen import ReopenEngine, from_jsonable, objectdb_view, ROPEFOLDER

PROP = "C18"


# ---------------------------------------------------------------------------
# the recording file seam (stands in for `open` and `os` inside rope.base.project)


class _RecFile:
    def __init__(self, rec, path, mode, real):
        self._rec, self._path, self._mode, self._real = rec, path, mode, real

    def write(self, data):
        b = data if isinstance(data, (bytes, bytearray, memoryview)) else data.encode("utf-8")
        at = self._rec.events._abort_at
        if at is not None and at[1] == "mid" and len(self._rec.events) == at[0] and not self._rec.aborted:
            # interruption in the middle of this write: half of it makes it out
            half = data[: len(data) // 2]
            self._real.write(half)
            self._real.flush()
            hb = half if isinstance(half, (bytes, bytearray, memoryview)) else half.encode("utf-8")
            self._rec.events._abort_at = None
            list.append(self._rec.events, ("write", self._path, bytes(hb)))
            self._rec.aborted = True
            self._rec.aborted_on = ("write-mid", os.path.basename(self._path))
            self._rec.events._raise()
        self._rec.events.append(("write", self._path, bytes(b)))
        return self._real.write(data)

    def flush(self):
        self._rec.events.append(("flush", self._path))
        return self._real.flush()

    def close(self):
        if self._real.closed:
            return None
        # close for real first: an interruption injected at this event arrives
        # right after the close (an open, half-flushed file object would be
        # finalised by the garbage collector at an unpredictable later moment)
        r = self._real.close()
        self._rec.events.append(("close", self._path))
        return r

    def __enter__(self):
        return self

    def __exit__(self, *a):
        self.close()
        return False

    def __getattr__(self, name):
        return getattr(self._real, name)


class _RecOS:
    """`os` as seen by rope.base.project while the save is recorded."""

    def __init__(self, rec):
        self._rec = rec

    def replace(self, src, dst):
        self._rec.events.append(("replace", os.fspath(src), os.fspath(dst)))
        return os.replace(src, dst)

    def rename(self, src, dst):
        self._rec.events.append(("replace", os.fspath(src), os.fspath(dst)))
        return os.rename(src, dst)

    def remove(self, path):
        self._rec.events.append(("remove", os.fspath(path)))
        return os.remove(path)

    unlink = remove

    def fsync(self, fd):
        self._rec.events.append(("fsync",))
        return os.fsync(fd)

    def __getattr__(self, name):
        return getattr(os, name)


class SaveAborted(KeyboardInterrupt):
    """The save is interrupted by an exception (Ctrl-C, a signal handler
    calling sys.exit, ...): unlike a hard kill, rope's with/finally blocks run."""


class _AbortingList(list):
    """Event list that raises inside the seam when the n-th event is appended
    (abort_at = (n, 'before') | (n, 'mid'))."""

    def __init__(self, rec, abort_at, abort_exc):
        super().__init__()
        self._rec, self._abort_at, self._abort_exc = rec, abort_at, abort_exc

    def append(self, ev):
        at = self._abort_at
        if at is not None and len(self) == at[0] and not self._rec.aborted:
            self._rec.aborted = True
            self._rec.aborted_on = (ev[0], os.path.basename(ev[1]) if len(ev) > 1 and isinstance(ev[1], str) else None)
            self._raise()
        super().append(ev)

    def _raise(self):
        if self._abort_exc == "enospc":
            raise OSError(28, "No space left on device (injected)")
        raise SaveAborted()

class Recorder:
    def __init__(self, ropedir, abort_at=None, abort_exc="interrupt"):
        self.ropedir = os.path.realpath(ropedir)
        self.events = _AbortingList(self, abort_at, abort_exc)
        self.aborted = False


    def open(self, file, mode="r", *a, **kw):
        path = os.path.realpath(os.fspath(file))
        if any(c in mode for c in "wax+"):
            # event first: an interruption injected here arrives before the open
            self.events.append(("open", path, mode))
            return _RecFile(self, path, mode, builtins.open(file, mode, *a, **kw))
        return builtins.open(file, mode, *a, **kw)

    def __enter__(self):
        import rope.base.project as rp

        self._rp = rp
        self._saved = (rp.__dict__.get("open"), rp.os)
        rp.open = self.open
        rp.os = _RecOS(self)
        return self

    def __exit__(self, *a):
        rp = self._rp
        if self._saved[0] is None:
            del rp.open
        else:
            rp.open = self._saved[0]
        rp.os = self._saved[1]
        return False


def crash_states(pre, events, ropedir, side_stride=64):
    """Yield (label, files) for every crash point.  `pre` and `files` map a
    file name inside the rope folder to its bytes.  Write-through model: every
    byte handed to write() may or may not have reached the file when the
    process dies, in order, so every byte prefix of every write is a state."""
    files = dict(pre)
    rel = lambda p: os.path.relpath(p, ropedir)  # noqa: E731
    yield ("before", dict(files))
    pending = {}  # name -> bytes written since the file was opened / last flushed (may still sit in a user-space buffer)

    def lost_buffers():
        """The same instant, but everything still buffered in the dying process is lost."""
        if not any(pending.values()):
            return None
        st = dict(files)
        for nm, buf in pending.items():
            if buf and nm in st and st[nm].endswith(buf):
                st[nm] = st[nm][: len(st[nm]) - len(buf)]
        return st

    current = {}  # path a file was opened under -> the name its inode has now (renames of open files)

    for i, ev in enumerate(events):
        k = ev[0]
        if k == "open":
            name, mode = rel(ev[1]), ev[2]
            current[ev[1]] = name
            if "w" in mode:
                files[name] = b""
            elif "x" in mode or "a" in mode:
                files.setdefault(name, b"")
            elif "+" in mode:
                files.setdefault(name, b"")
        elif k == "write":
            name, data = current.get(ev[1], rel(ev[1])), ev[2]
            cur = files.get(name, b"")
            side = name.endswith(".json")
            n = len(data)
            if side:
                cuts = sorted(set(range(0, n, side_stride)) | {1, n - 1} & set(range(1, n)))
            elif n > 4096:
                # a large write: every byte of the first and last 512, a stride in between,
                # and the neighbourhood of every 8 KiB block boundary
                cuts = sorted(set(range(1, 512)) | set(range(n - 512, n)) | set(range(512, n, 211))
                              | {b + d for b in range(8192, n, 8192) for d in (-1, 0, 1)})
            else:
                cuts = range(1, n)
            for c in cuts:
                if 0 < c < n:
                    part = dict(files)
                    part[name] = cur + data[:c]
                    yield ("write[%d]+%d" % (i, c), part)
            files[name] = cur + data
            pending[name] = pending.get(name, b"") + data
        elif k in ("flush", "close"):
            pending.pop(current.get(ev[1], rel(ev[1])), None)
            if k == "close":
                current.pop(ev[1], None)
        elif k == "replace":
            src, dst = rel(ev[1]), rel(ev[2])
            if src in files:
                files[dst] = files.pop(src)
            if src in pending:
                pending[dst] = pending.pop(src)
            for opened, nm in list(current.items()):
                if nm == src:
                    current[opened] = dst
        elif k == "remove":
            files.pop(rel(ev[1]), None)
        elif k == "truncate":
            name = rel(ev[1])
            files[name] = files.get(name, b"")[: ev[2]]
        yield ("after[%d]:%s" % (i, k), dict(files))
        lb = lost_buffers()
        if lb is not None and k in ("replace", "open", "close", "remove"):
            yield ("lostbuf[%d]:%s" % (i, k), lb)
            # a buffered writer hands full 8 KiB blocks to the kernel as they fill up:
            # of a large unflushed tail, whole blocks may already be in the file
            for nm, buf in pending.items():
                if len(buf) > 8192 and nm in files and files[nm].endswith(buf):
                    for cut in range(8192, len(buf), 8192):
                        st = dict(files)
                        st[nm] = files[nm][: len(files[nm]) - len(buf) + cut]
                        yield ("partbuf[%d]:%s+%d" % (i, k, cut), st)


class CrashSaveEngine(Engine):
    prop = PROP
    name = "crashsave"
    level = "fault_enumeration"
    tiers = {
        "quick": {"runs": 48, "wall": 150},
        "thorough": {"runs": 4000, "wall": 1800},
    }
    components_real = [
        "rope.base.project.Project.close/_DataFiles.write_data/read_data (real pickle and json)",
        "rope.base.history.History.write/_load_history", "rope.base.oi.memorydb.MemoryDB.write/_load_files",
        "rope.base.change.ChangeToData/DataToChange", "pycore.get_pymodule / analyze_module on the recovered project",
        "kernel tmpfs",
    ]
    components_stub = [
        "process death: simulated by recording the save's open/write/close/replace/remove events through the "
        "module-level open/os seam of rope.base.project and materialising every prefix of that trace (write-through "
        "model, every byte prefix of every write) in the rope folder, then opening a brand-new Project on it in the "
        "same interpreter (module-level singletons reset)",
        "interruption by exception: the seam raises KeyboardInterrupt / OSError(ENOSPC) at the n-th save event (or in "
        "the middle of a write) and lets rope unwind",
        "wall clock (simulated)",
    ]
    assumptions = [
        "crash = process death: data handed to write() reaches the file in order (any prefix may be missing; at event "
        "boundaries additionally the variant in which everything still unflushed in the process is lost); a "
        "completed rename/replace is atomic; no reordering of rename against data (power loss is outside the model)",
        "the .json side files are not read back by rope; their writes are enumerated at event boundaries plus a stride",
        "validate_objectdb default (False)",
    ]
    rule = (
        "cases = (seeded history leading to a close, crash point) with the crash point enumerated exhaustively per "
        "history: after every recorded open/write/close/replace event and after every byte prefix of every write to a "
        "file rope reads back; one evaluation = one recovery (fresh Project on the crash state: open, history, object "
        "info, module analysis, and on a subset one more do+close+reopen); in addition the save is interrupted by an "
        "exception (rope's cleanup runs) at every event and mid-write; non-trivial = a crash state in which a data "
        "file differs from both the complete previous and the complete new version, or a temporary file is present; "
        "distinct = by content hash of the rope folder"
    )

    # ------------------------------------------------------------------
    def gen_trace(self, rng):
        base = ReopenEngine().gen_trace(rng)
        steps = [s for s in base["steps"]]
        # make sure there is something to save and, usually, a previous version
        swarm = base["swarm"]
        swarm["prev_version"] = rng.random() < 0.75
        if swarm["prev_version"] and not any(s["op"] == "reopen" for s in steps[1:-1]):
            steps.insert(rng.randint(1, max(1, len(steps) - 1)), {"op": "reopen"})
        if not swarm["prev_version"]:
            steps = [s for s in steps if s["op"] != "reopen"]
        swarm["liveness_every"] = rng.choice([1, 7, 31])
        m1 = next((e for e in base["init"] if e.get("p") == "m1.py" and "def add(a, b):" in e.get("text", "")), None)
        if m1 is not None and rng.random() < 0.5:
            # object information older than the sources: a call recorded with two arguments
            # (automatic static analysis on write), saved, then the function loses a parameter
            swarm["soa"] = True
            t1 = m1["text"] + "extra = 1\n"
            t2 = t1.replace("def add(a, b):", "def add(a):")
            steps[:0] = [{"op": "do", "cs": {"id": 9101, "desc": "cs9101", "ops": [["edit", "m1.py", t1]]}},
                         {"op": "reopen"},
                         {"op": "do", "cs": {"id": 9102, "desc": "cs9102", "ops": [["edit", "m1.py", t2]]}}]
            swarm["stale_objectinfo_scenario"] = True
        if rng.random() < 0.3:
            # a data file larger than a buffered writer's block (8 KiB): old/new contents of a big module
            files = [e["p"] for e in base["init"] if not e.get("dir")]
            if files:
                big = "x = 1\n" + "".join("# padding line %d padding padding padding padding\n" % i for i in range(rng.choice([250, 500])))
                steps.append({"op": "do", "cs": {"id": 9001, "desc": "cs9001", "ops": [["edit", rng.choice(files), big]]}})
                swarm["big_history"] = True
        if swarm.get("sibling_lib"):
            # what analysis learns about the library outside the project is part of what gets saved
            steps.insert(0, {"op": "analyze", "path": "uses_shelf.py"})
        base["steps"] = steps
        return base

    def run(self, run_seed):
        rng = kernel.rng_for("crashsave", run_seed)
        return self.execute(self.gen_trace(rng))

    def replay(self, trace):
        return self.execute(trace)

    # ------------------------------------------------------------------
    def execute(self, trace):
        trace = kernel.jsonify(trace)
        out = Outcome(PROP)
        out.trace = trace
        swarm = trace.get("swarm") or {}
        out.swarm = swarm
        limit = trace["limit"]
        prefs = {"automatic_soa": bool(swarm.get("soa", True)), "save_history": True, "save_objectdb": True}
        from .reopen import SIBLING_LIB

        W = World(trace["init"], limit=limit, ropefolder=ROPEFOLDER, prefs=prefs, tag="c18-",
                  lib=SIBLING_LIB if swarm.get("sibling_lib") else None,
                  fixed_key=("c18-" + kernel.short_hash(trace["steps"])) if swarm.get("sibling_lib") else None)
        reo = ReopenEngine()
        try:
            model = HistoryModel(TreeModel(W.snapshot()), limit)
            for i, st in enumerate(trace["steps"]):
                op = st["op"]
                if op in ("sync", "reopen"):
                    W.clock.advance(1_000_000_000)
                    W.use()
                    try:
                        if op == "sync":
                            W.project.sync()
                        else:
                            W.project.close()
                            W.open()
                            realize.history_struct(W.project)
                    except Exception as e:
                        # not even an *uninterrupted* save can be opened again
                        out.evals += 1
                        out.violate("clean_save_cannot_be_reopened", {"point": "clean", "exc": type(e).__name__},
                                    {"step": i, "op": op, "exc": repr(e)[:300]}, where="clean[%d]" % i)
                        return out
                elif op == "oi":
                    reo._oi(W, st)
                elif op == "analyze":
                    reo._analyze(W, st)
                else:
                    r = exec_history_step(W, model, st)
                    if r.exc is not None and not r.info.get("empty"):
                        break
            ropedir = os.path.join(W.root, ROPEFOLDER)
            pre = _read_dir(ropedir)
            try:
                prev_h, prev_o = self._load_versions(W)  # what is on disk now (previous version)
            except Exception as e:
                out.evals += 1
                out.violate("clean_save_cannot_be_reopened", {"point": "clean", "exc": type(e).__name__},
                            {"step": "before the recorded close", "exc": repr(e)[:300]}, where="clean[prev]")
                return out
            new_h = realize.history_struct(W.project)
            new_o = objectdb_view(W.project)
            W.use()
            W.clock.advance(1_000_000_000)
            with Recorder(ropedir) as rec:
                W.project.close()
            post = _read_dir(ropedir)
            events = rec.events
            out.log.add(ev="save", n_events=len(events), kinds=[e[0] for e in events],
                        files=sorted(set(os.path.basename(e[1]) for e in events if len(e) > 1 and isinstance(e[1], str))))
            # sanity: replaying the whole trace must give what the real close left behind
            final = None
            for label, files in crash_states(pre, events, ropedir):
                if label.startswith(("after", "before")):
                    final = files
            if final != post:
                raise kernel.HarnessError("crash-state model disagrees with the real close(): %r vs %r" % (
                    sorted((k, len(v)) for k, v in (final or {}).items()), sorted((k, len(v)) for k, v in post.items())))
            # inference consults stored object information: only meaningful when that information
            # came from rope's own analysis (the synthetic values of the C12 vocabulary exercise the
            # serializer, they are not types)
            real_info_only = not any(s.get("op") == "oi" and s.get("kind") in ("call", "name") for s in trace["steps"])
            accept_h = [prev_h, new_h, [[], []]]
            accept_o = [prev_o, new_o, {}]
            modules = sorted(p for p in W.snapshot() if p.endswith(".py"))
            seen = set()
            every = swarm.get("liveness_every", 7)
            n = 0
            for label, files in crash_states(pre, events, ropedir):
                key = hashlib.sha256(kernel.canon(sorted(files.items())).encode()).hexdigest()
                if key in seen:
                    out.stats["duplicate_states"] += 1
                    continue
                seen.add(key)
                n += 1
                out.evals += 1
                kind = label.split("[")[0]
                out.stats["exec_crash_" + kind] += 1
                out.stats["fired_crash_" + kind] += 1
                torn = any(
                    files.get(nm) not in (pre.get(nm), post.get(nm)) for nm in ("history", "objectdb")
                ) or any(nm not in post for nm in files)
                if torn:
                    out.nontrivial(key)
                    out.stats["probe_torn_or_temp_state"] += 1
                out.state(key)
                verdict = self._recover(out, W, ropedir, files, label, accept_h, accept_o, modules, prefs, limit,
                                        liveness=(n % every == 0), hide_lib=(n % 2 == 1), deep=(real_info_only and n % 3 == 0))
                out.log.add(ev="crash", label=label, state=key[:12], verdict=verdict)
            out.stats["crash_states"] += n
            # ---- the save is interrupted by an exception instead of a hard
            # kill: rope's own cleanup code runs while unwinding.  Enumerated
            # at every event (and in the middle of every write).
            n_ab = 0
            for idx in range(len(events)):
                for where in ("before", "mid"):
                    if where == "mid" and events[idx][0] != "write":
                        continue
                    exc_kind = "interrupt" if (idx + (where == "mid")) % 2 == 0 else "enospc"
                    _write_dir(ropedir, pre)
                    W.use()
                    rec2 = Recorder(ropedir, abort_at=(idx, where), abort_exc=exc_kind)
                    raised = None
                    try:
                        with rec2:
                            W.project.close()
                    except BaseException as e:  # noqa: B036 - the injected interruption
                        raised = e
                    if not rec2.aborted:
                        continue
                    files = _read_dir(ropedir)
                    # the process survived the interruption (the exception was handled): saving again in
                    # the same process must now write the complete new version
                    W.use()
                    retry_exc = None
                    try:
                        W.project.close()
                    except Exception as e:
                        retry_exc = e
                    after_retry = _read_dir(ropedir)
                    out.stats["exec_save_retried_after_interruption"] += 1
                    if retry_exc is not None or {k: v for k, v in after_retry.items() if not k.endswith(".tmp")} != \
                            {k: v for k, v in post.items() if not k.endswith(".tmp")}:
                        out.violate("retry_after_interrupted_save_incomplete", {"point": "abort", "exc": type(retry_exc).__name__ if retry_exc else None},
                                    {"crash_point": "abort[%d]:%s:%s:%s" % (idx, events[idx][0], where, exc_kind),
                                     "exc": repr(retry_exc)[:200] if retry_exc else None,
                                     "files_after_retry": _sizes(after_retry), "files_of_a_complete_save": _sizes(post)},
                                    where="abort[%d]:%s:%s:%s" % (idx, events[idx][0], where, exc_kind))
                    key = hashlib.sha256(kernel.canon(sorted(files.items())).encode()).hexdigest()
                    n_ab += 1
                    out.evals += 1
                    out.stats["exec_abort_" + exc_kind] += 1
                    out.stats["fired_abort_" + exc_kind] += 1
                    label = "abort[%d]:%s:%s:%s" % (idx, events[idx][0], where, exc_kind)
                    if key not in seen:
                        out.nontrivial(key)
                        out.state(key)
                        seen.add(key)
                    verdict = self._recover(out, W, ropedir, files, label, accept_h, accept_o, modules, prefs, limit,
                                            liveness=(n_ab % 3 == 0), deep=real_info_only)
                    out.log.add(ev="abort", label=label, raised=type(raised).__name__ if raised else None,
                                state=key[:12], verdict=verdict, on=getattr(rec2, "aborted_on", None), n_after=len(rec2.events),
                                files={k: [len(v), hashlib.sha256(v).hexdigest()[:8]] for k, v in sorted(files.items())})
            out.stats["abort_states"] += n_ab
            # ---- the previous version on disk may have been written by the rope release this tree
            # started from (moves saved without the folder flag, edits without the newline
            # convention): it must still open and be usable
            if "history" in post and not out.violations:
                import pickle

                def legacy(d):
                    kind, fields = d
                    if kind == "ChangeSet":
                        return kind, (fields[0], [legacy(c) for c in fields[1]], fields[2])
                    if kind == "ChangeContents":
                        return kind, tuple(fields[:3])
                    if kind == "MoveResource":
                        return kind, tuple(fields[:2])
                    return kind, fields

                try:
                    undo, redo = pickle.loads(post["history"])
                    old_format = dict(post, history=pickle.dumps([[legacy(d) for d in undo], [legacy(d) for d in redo]], 2))
                except Exception as e:
                    raise kernel.HarnessError("cannot rewrite the saved history in the older format: %r" % (e,))
                out.evals += 1
                out.stats["exec_older_format_history"] += 1
                verdict = self._recover(out, W, ropedir, old_format, "older-format", None, accept_o, modules, prefs, limit, liveness=True, deep=real_info_only)
                out.log.add(ev="older_format", verdict=verdict)
            _write_dir(ropedir, post)
            out.schedules.add(kernel.short_hash([e[0] for e in events]))
            out.sim_s = W.clock.covered_s()
            out.sample = {
                "history_steps": [s["op"] for s in trace["steps"]][:20],
                "save_events": [(e[0], os.path.basename(e[1]) if len(e) > 1 and isinstance(e[1], str) else None,
                                 len(e[2]) if e[0] == "write" else None) for e in events][:12],
                "crash_states": n,
            }
        finally:
            W.destroy()
        return out

    # ------------------------------------------------------------------
    def _load_versions(self, W):
        """History/object info as a fresh project loads them from what is on
        disk right now (the complete previous version)."""
        from rope.base.project import Project

        kernel.reset_rope_globals()
        p = Project(W.root, ropefolder=ROPEFOLDER, **W.prefs)
        return realize.history_struct(p), objectdb_view(p)

    def _recover(self, out, W, ropedir, files, label, accept_h, accept_o, modules, prefs, limit, liveness, hide_lib=False, deep=True):
        self._deep = deep
        # the world may have moved on while the project was closed: the library outside the
        # project that stored object information refers to has been uninstalled
        lib = getattr(W, "lib", None)
        hidden = []
        if hide_lib and lib:
            for n in sorted(os.listdir(lib)):
                if n.endswith(".py"):
                    os.rename(os.path.join(lib, n), os.path.join(lib, n + ".gone"))
                    hidden.append(n)
            out.stats["probe_recovery_with_library_gone"] += 1
        try:
            return self._recover1(out, W, ropedir, files, label, accept_h, accept_o, modules, prefs, limit, liveness)
        finally:
            for n in hidden:
                os.rename(os.path.join(lib, n + ".gone"), os.path.join(lib, n))

    def _recover1(self, out, W, ropedir, files, label, accept_h, accept_o, modules, prefs, limit, liveness):
        from rope.base import exceptions
        from rope.base.project import Project

        _write_dir(ropedir, files)
        sig = {"point": label.split("[")[0]}
        kernel.reset_rope_globals()
        W.use()
        try:
            p = Project(W.root, ropefolder=ROPEFOLDER, **W.prefs)
        except Exception as e:
            sig.update(stage="open", exc=type(e).__name__)
            out.violate("open_raises", sig, {"crash_point": label, "exc": repr(e)[:300], "files": _sizes(files)}, where=label)
            return "open_raises"
        try:
            h = realize.history_struct(p)
            # ... and shown the way a history view shows it
            for c in list(p.history.undo_list) + list(p.history.redo_list):
                str(c)
                if not _has_bytes_contents(c):
                    # (the textual preview is defined for text contents only; a change that carries
                    # already-encoded bytes cannot be previewed in the session that made it either)
                    c.get_description()
        except Exception as e:
            sig.update(stage="history", exc=type(e).__name__)
            out.violate("history_raises", sig, {"crash_point": label, "exc": repr(e)[:300], "files": _sizes(files)}, where=label)
            return "history_raises"
        if accept_h is not None and h not in accept_h:
            sig.update(stage="history")
            out.violate("history_neither_old_nor_new", sig,
                        {"crash_point": label, "loaded": [[c[1] for c in h[0]], [c[1] for c in h[1]]], "files": _sizes(files)},
                        where=label)
            return "history_mixed"
        try:
            o = objectdb_view(p)
        except Exception as e:
            sig.update(stage="objectinfo", exc=type(e).__name__)
            out.violate("objectinfo_raises", sig, {"crash_point": label, "exc": repr(e)[:300], "files": _sizes(files)}, where=label)
            return "objectinfo_raises"
        if o not in accept_o:
            sig.update(stage="objectinfo")
            out.violate("objectinfo_neither_old_nor_new", sig, {"crash_point": label, "files": _sizes(files)}, where=label)
            return "objectinfo_mixed"
        for m in modules:
            try:
                res = p.get_resource(m)
                pm = p.get_pymodule(res)
                p.pycore.analyze_module(res)
                # ... and asked what its names are (inference consults the stored object information)
                from rope.base import arguments, pyobjects

                for nm, pyname in sorted(pm.get_attributes().items()) if self._deep else ():
                    obj = pyname.get_object()
                    if isinstance(obj, pyobjects.PyFunction):
                        for i in range(len(obj.get_param_names(special_args=False))):
                            obj.get_parameter(i)
                        obj.get_returned_object(arguments.ObjectArguments([]))
            except exceptions.ModuleSyntaxError:
                pass
            except Exception as e:
                sig.update(stage="analyze", exc=type(e).__name__)
                out.violate("analyze_raises", sig, {"crash_point": label, "module": m, "exc": repr(e)[:300], "files": _sizes(files)}, where=label)
                return "analyze_raises"
        # stored call information can be queried
        try:
            db = p.pycore.object_info.objectdb
            for path in list(db.files.keys())[:4]:
                for key in list(db.files[path].keys())[:4]:
                    for ci in db.get_callinfos(path, key):
                        ci.get_parameters(), ci.get_returned()
        except Exception as e:
            sig.update(stage="query", exc=type(e).__name__)
            out.violate("query_raises", sig, {"crash_point": label, "exc": repr(e)[:300]}, where=label)
            return "query_raises"
        if liveness:
            out.stats["liveness_checks"] += 1
            name = "live_after_crash.py"
            try:
                from rope.base import change as rc

                cs = rc.ChangeSet("live")
                cs.add_change(rc.CreateFile(p.root, name))
                p.do(cs)
                p.history.undo()
                p.history.redo()
                p.close()
                kernel.reset_rope_globals()
                p2 = Project(W.root, ropefolder=ROPEFOLDER, **W.prefs)
                descs = [c.description for c in p2.history.undo_list]
                if limit > 0 and "live" not in descs:
                    sig.update(stage="liveness")
                    out.violate("liveness_lost_change", sig, {"crash_point": label, "undo_list": descs}, where=label)
                    return "liveness_lost"
            except Exception as e:
                sig.update(stage="liveness", exc=type(e).__name__)
                out.violate("liveness_raises", sig, {"crash_point": label, "exc": repr(e)[:300]}, where=label)
                return "liveness_raises"
            finally:
                try:
                    os.unlink(os.path.join(W.root, name))
                except OSError:
                    pass
        return "ok"


def _has_bytes_contents(c):
    from rope.base import change as rc

    if isinstance(c, rc.ChangeSet):
        return any(_has_bytes_contents(x) for x in c.changes)
    return isinstance(c, rc.ChangeContents) and (isinstance(c.new_contents, bytes) or isinstance(c.old_contents, bytes))


def _read_dir(d):
    out = {}
    if os.path.isdir(d):
        for n in sorted(os.listdir(d)):
            p = os.path.join(d, n)
            if os.path.isfile(p):
                with builtins.open(p, "rb") as f:
                    out[n] = f.read()
    return out


def _write_dir(d, files):
    os.makedirs(d, exist_ok=True)
    for n in os.listdir(d):
        p = os.path.join(d, n)
        if os.path.isfile(p) and n not in files:
            os.unlink(p)
    for n, b in files.items():
        with builtins.open(os.path.join(d, n), "wb") as f:
            f.write(b)


def _sizes(files):
    return {k: len(v) for k, v in sorted(files.items())}


ENGINE = CrashSaveEngine()
