"""C09 -- computing changes is pure; performing them touches only what was announced.

One run = a history of refactoring requests on an evolving project that lives
in a scratch *universe*: the project root (with its rope folder, an ignored
folder and a text file) and a sibling out-of-project folder on python_path
whose modules the project imports.  Every request is computed under three
monitors (SimFS call log, audit hook, whole-universe snapshots with inode and
mtime), optionally with the stopping thread armed at a job boundary of
get_changes; by scheduler choice it is then performed and later undone.
"""

from __future__ import annotations

import os
import re
import sys
import traceback

from .. import kernel, simfs
from .base import Engine, Outcome

PROP = "C09"
ROPEFOLDER = ".ropeproject"

PROJ = {
    "core.py": (
        "import extmod\nfrom extpkg import helper\nfrom extpkg.tools import Tool\n\nGLOBAL = 10\n\n\n"
        "def compute(a, b=2):\n    total = a + b\n    scaled = total * GLOBAL\n    return helper(scaled)\n\n\n"
        "class Shape:\n    sides = 4\n\n    def __init__(self, size):\n        self.size = size\n        self.tool = Tool()\n\n"
        "    def area(self):\n        side = self.size\n        result = side * side\n        return result\n\n"
        "    def describe(self, prefix):\n        text = prefix + str(self.area())\n        return text\n\n\n"
        "def make_shape():\n    return Shape(3)\n\n\nvalue = compute(1)\next_value = extmod.ext_func(value)\n"
    ),
    "app.py": (
        "from core import compute, Shape, GLOBAL, make_shape\nimport core\nimport os, sys\n\n"
        "s = make_shape()\nprint(s.area())\nr = compute(GLOBAL, b=3)\nd = s.describe(\"x\")\nc = core.Shape(2)\n"
        "e = undefined_thing(1)\nw = r * 2\nsz = s.size\nlv = s.tool.level\n"
    ),
    "pkg/__init__.py": "",
    "pkg/util.py": (
        "from core import Shape\nfrom . import sibling\n\n\ndef wrap(shape):\n    inner = shape.area()\n"
        "    return sibling.double(inner)\n\n\ndef twice(n):\n    return n * 2\n"
    ),
    "pkg/sibling.py": "def double(x):\n    return x * 2\n",
    # a dotted import that only the archive on python_path could satisfy (stays unresolved)
    "pkg/uses_vendor.py": "import vendored.codec\nfrom core import compute\n\n\ndef enc2(x):\n    return vendored.codec.enc(compute(x))\n",
    "ignored_dir/ig.py": "from core import compute, Shape\n\nz = compute(5)\nq = Shape(1).area()\n",
    "notes.txt": "compute and Shape are mentioned here\n",
    # coding lines Python accepts (utf-8-* / latin-1-* are normalised) although no such codec is registered
    "legacy_flags.py": "# -*- coding: utf-8-unix -*-\nLEGACY_FLAG = 1\n",
    "pkg/legacy_dos.py": "#!/usr/bin/env python\n# vim: set fileencoding=latin-1-dos :\nDOS_FLAG = 2\n",
    # ignored through a '//' pattern (any number of folders in between)
    "gen/stubs0.py": "from core import compute\n\ng0 = compute(7)\n",
    "gen/v1/internal/stubs.py": "from core import compute, Shape\n\ng1 = compute(8)\ng2 = Shape(2).area()\n",
}
EXT = {
    "extmod.py": "from extpkg import helper\n\n\ndef ext_func(v):\n    return helper(v)\n\n\nDEFAULT = helper(3)\n",
    "extpkg/__init__.py": "def helper(x):\n    return x\n",
    "extpkg/tools.py": "class Tool:\n    level = 1\n\n    def use(self):\n        return self.level\n",
    "vendor.zip": "PK not really an archive\n",
}

IDENTS = ["compute", "Shape", "GLOBAL", "make_shape", "area", "describe", "size", "sides", "total", "scaled", "side",
          "result", "text", "prefix", "helper", "Tool", "tool", "ext_func", "extmod", "wrap", "inner", "double", "twice",
          "value", "core", "sibling", "a", "b", "s", "r", "undefined_thing", "extpkg", "pkg", "use", "x", "n", "self", "sys", "os", "vendored", "codec", "level", "sz"]
NEWNAMES = ["renamed", "Other", "new_name", "zed", "class", "1bad", "has space", "", "compute", "área"]
FRAGMENTS = ["a + b", "total * GLOBAL", "side * side", "prefix + str(self.area())", "self.area()", "shape.area()",
             "total = a + b\n    scaled = total * GLOBAL", "side = self.size\n        result = side * side", "r * 2",
             "helper(scaled)", "Shape(3)", "x * 2", "n * 2", "compute(1)", "sibling.double(inner)"]

# ---------------------------------------------------------------------------
# audit monitor (process-wide hook, gated)

_AUDIT = {"on": False, "root": None, "events": []}
_MUT_EVENTS = {
    "os.remove", "os.rename", "os.mkdir", "os.rmdir", "os.truncate", "os.utime", "os.chmod", "os.link", "os.symlink",
    "shutil.move", "shutil.rmtree", "shutil.copyfile", "shutil.copytree", "os.chown",
}
_installed = False


def _hook(event, args):
    if not _AUDIT["on"]:
        return
    try:
        if event == "open":
            path, mode, flags = args[0], args[1], args[2]
            writing = (mode and any(c in mode for c in "wax+")) or (
                isinstance(flags, int) and flags & (os.O_WRONLY | os.O_RDWR | os.O_CREAT | os.O_TRUNC | os.O_APPEND))
            if not writing or not isinstance(path, (str, bytes, os.PathLike)):
                return
            paths = [path]
        elif event in _MUT_EVENTS:
            paths = [a for a in args[:2] if isinstance(a, (str, bytes, os.PathLike))]
        else:
            return
        root = _AUDIT["root"]
        for p in paths:
            p = os.fspath(p)
            if isinstance(p, bytes):
                p = p.decode("utf-8", "replace")
            ap = os.path.abspath(p)
            if ap == root or ap.startswith(root + os.sep):
                _AUDIT["events"].append((event, os.path.relpath(ap, root).replace(os.sep, "/")))
    except Exception:
        pass


def audit_start(root):
    global _installed
    if not _installed:
        sys.addaudithook(_hook)
        _installed = True
    _AUDIT["root"] = os.path.realpath(root)
    _AUDIT["events"] = []
    _AUDIT["on"] = True


def audit_stop():
    _AUDIT["on"] = False
    ev = _AUDIT["events"]
    _AUDIT["events"] = []
    return ev


# ---------------------------------------------------------------------------


HANG_LIMIT_S = 20


class RequestHang(BaseException):
    pass


class _watchdog:
    """Wall-clock watchdog around one request (SIGALRM; worker main thread)."""

    def __init__(self, seconds):
        self.seconds = seconds

    def _fire(self, signum, frame):
        raise RequestHang()

    def __enter__(self):
        import signal

        self._old = signal.signal(signal.SIGALRM, self._fire)
        signal.setitimer(signal.ITIMER_REAL, self.seconds)
        return self

    def __exit__(self, *a):
        import signal

        signal.setitimer(signal.ITIMER_REAL, 0)
        signal.signal(signal.SIGALRM, self._old)
        return False


def apply_unified_diff(old, diff):
    """Apply difflib.unified_diff output (as in ChangeContents.get_description)."""
    if not diff:
        return old
    old_lines = old.splitlines(True)
    out = []
    pos = 0
    lines = diff.splitlines(True)
    i = 0
    while i < len(lines) and not lines[i].startswith("@@"):
        i += 1
    while i < len(lines):
        m = re.match(r"@@ -(\d+)(?:,(\d+))? \+(\d+)(?:,(\d+))? @@", lines[i])
        if not m:
            raise ValueError("bad hunk header %r" % lines[i])
        start = int(m.group(1))
        count = int(m.group(2)) if m.group(2) is not None else 1
        start0 = start - 1 if count else start
        out.extend(old_lines[pos:start0])
        pos = start0
        i += 1
        while i < len(lines) and not lines[i].startswith("@@"):
            ln = lines[i]
            tag, body = ln[:1], ln[1:]
            if tag == " ":
                if old_lines[pos] != body:
                    raise ValueError("context mismatch at %d" % pos)
                out.append(body)
                pos += 1
            elif tag == "-":
                if old_lines[pos] != body:
                    raise ValueError("removal mismatch at %d" % pos)
                pos += 1
            elif tag == "+":
                out.append(body)
            else:
                raise ValueError("bad diff line %r" % ln)
            i += 1
    out.extend(old_lines[pos:])
    return "".join(out)


def find_offsets(text, ident):
    return [m.start() for m in re.finditer(r"(?<![\w])%s(?![\w])" % re.escape(ident), text)]


class Universe:
    def __init__(self, swarm, key):
        import rope.base.change as rc
        from rope.base.project import Project

        # the absolute path is part of the system's input here (out-of-project
        # resources are hashed by it), so it must be a function of the run
        self.dir = kernel.fixed_scratch(key)
        self._fixed = "ropesim-fixed" in self.dir
        self.root = os.path.join(self.dir, "proj")
        self.ext = os.path.join(self.dir, "ext")
        for base, files in ((self.root, PROJ), (self.ext, EXT)):
            for p, text in files.items():
                full = os.path.join(base, *p.split("/"))
                os.makedirs(os.path.dirname(full), exist_ok=True)
                with open(full, "w", encoding="utf-8", newline="") as f:
                    f.write(text)
        self.clock = kernel.SimClock()
        rc.time = kernel.TimeShim(self.clock)
        kernel.reset_rope_globals()
        self.fs = simfs.SimFS(self.root, self.clock, stamp=False)
        self.prefs = {
            # (an archive on the path, like pythonXY.zip on sys.path: a *file* rope cannot look into)
            "python_path": [self.ext, os.path.join(self.ext, "vendor.zip")],
            "ignored_resources": ["*.pyc", "*~", ROPEFOLDER, "ignored_dir", "gen//*.py"],
            "automatic_soa": bool(swarm.get("soa", True)),
            "save_history": True,
            "save_objectdb": bool(swarm.get("save_objectdb", False)),
        }
        self.project = Project(self.root, fscommands=self.fs, ropefolder=ROPEFOLDER, **self.prefs)
        # a second project that uses the first one (multi-project refactorings)
        self.root2 = os.path.join(self.dir, "proj2")
        os.makedirs(self.root2)
        with open(os.path.join(self.root2, "user.py"), "w", encoding="utf-8", newline="") as f:
            f.write("from core import compute, Shape\nfrom pkg.util import wrap\n\nu = compute(2)\nsh = Shape(1)\nw = wrap(sh)\n")
        os.makedirs(os.path.join(self.root2, "pkg"))
        for rel, text in (("pkg/__init__.py", ""), ("pkg/util.py", "def local_helper():\n    return 0\n"),
                          ("app.py", "import user\n\nmain = user.u\n")):
            with open(os.path.join(self.root2, *rel.split("/")), "w", encoding="utf-8", newline="") as f:
                f.write(text)
        self.project2 = Project(self.root2, ropefolder=None, automatic_soa=False, python_path=[self.root])

    def snap(self, meta=True):
        return kernel.snapshot(self.dir, meta=meta)

    def destroy(self):
        if self._fixed:
            kernel.drop_fixed(self.dir)
        else:
            kernel.drop_scratch(self.dir)


# ---------------------------------------------------------------------------
# request kinds: each builds the change object through rope's public API


def _res(u, path):
    from rope.base import libutils

    if path.startswith("ext:"):
        return libutils.path_to_resource(u.project, os.path.join(u.ext, path[4:]))
    return u.project.get_resource(path)


def _offset(u, st, text=None):
    if st.get("raw_offset") is not None:
        return st["raw_offset"]
    res = _res(u, st["path"])
    text = res.read() if text is None else text
    offs = find_offsets(text, st["ident"])
    if not offs:
        return None
    return offs[st.get("occ", 0) % len(offs)] + (st.get("nudge", 0))


def _region(u, st):
    if st.get("raw_region") is not None:
        return tuple(st["raw_region"])
    text = _res(u, st["path"]).read()
    i = text.find(st["fragment"])
    if i < 0:
        return None
    return i + st.get("ds", 0), i + len(st["fragment"]) + st.get("de", 0)


def _resources_arg(u, st):
    sel = st.get("resources")
    if sel is None:
        return None
    out = []
    for p in sel:
        try:
            r = _res(u, p)
        except Exception:
            continue
        if not r.is_folder():
            out.append(r)
    return out


def build_request(u, st, task_handle=None):
    """Returns the change object (ChangeSet).  Raises whatever rope raises.
    Returns None if the request cannot even be formed (identifier not present)."""
    from rope.base import exceptions
    from rope.refactor import (
        change_signature, encapsulate_field, extract, inline, introduce_factory, introduce_parameter, localtofield,
        method_object, move, rename, restructure, topackage, usefunction,
    )
    from rope.refactor.importutils import ImportOrganizer
    from rope.contrib import generate

    p = u.project
    k = st["kind"]
    kw = {}
    if task_handle is not None:
        kw["task_handle"] = task_handle
    rs = _resources_arg(u, st)
    res = _res(u, st["path"])
    if k == "rename":
        off = _offset(u, st)
        if off is None:
            return None
        r = rename.Rename(p, res, off)
        if rs is not None:
            kw["resources"] = rs
        return r.get_changes(st["new"], docs=st.get("docs", False), in_hierarchy=st.get("hier", False), **kw)
    if k == "multi_rename":
        from rope.refactor import multiproject

        off = _offset(u, st)
        if off is None:
            return None
        mr = multiproject.MultiProjectRefactoring(rename.Rename, [u.project2])
        return ("multi", mr(p, res, off).get_all_changes(st["new"]))
    if k == "multi_move_global":
        from rope.refactor import multiproject

        off = _offset(u, st)
        if off is None:
            return None
        mr = multiproject.MultiProjectRefactoring(move.create_move, [u.project2])
        dest = _res(u, st["dest"]) if st.get("dest_is_resource") else st["dest"]
        return ("multi", mr(p, res, off).get_all_changes(dest))
    if k == "multi_move_module":
        from rope.refactor import multiproject

        mr = multiproject.MultiProjectRefactoring(move.create_move, [u.project2])
        return ("multi", mr(p, res).get_all_changes(_res(u, st["dest"])))
    if k == "rename_module":
        r = rename.Rename(p, res, None)
        if rs is not None:
            kw["resources"] = rs
        return r.get_changes(st["new"], **kw)
    if k == "move_global":
        off = _offset(u, st)
        if off is None:
            return None
        m = move.create_move(p, res, off)
        dest = st["dest"]
        if st.get("dest_is_resource"):
            dest = _res(u, dest)
        if rs is not None:
            kw["resources"] = rs
        return m.get_changes(dest, **kw)
    if k == "move_module":
        m = move.create_move(p, res)
        if rs is not None:
            kw["resources"] = rs
        return m.get_changes(_res(u, st["dest"]), **kw)
    if k == "move_method":
        off = _offset(u, st)
        if off is None:
            return None
        m = move.MoveMethod(p, res, off)
        return m.get_changes(st["dest_attr"], st.get("new"))
    if k in ("extract_method", "extract_variable"):
        reg = _region(u, st)
        if reg is None:
            return None
        cls = extract.ExtractMethod if k == "extract_method" else extract.ExtractVariable
        e = cls(p, res, reg[0], reg[1])
        return e.get_changes(st["new"], similar=st.get("similar", False), global_=st.get("global_", False))
    if k == "inline":
        off = _offset(u, st)
        if off is None:
            return None
        i = inline.create_inline(p, res, off)
        ikw = {}
        if isinstance(i, (inline.InlineMethod, inline.InlineVariable)):
            ikw.update(remove=st.get("remove", True), only_current=st.get("only_current", False))
            if rs is not None:
                ikw["resources"] = rs
            ikw.update(kw)
        return i.get_changes(**ikw)
    if k == "change_signature":
        off = _offset(u, st)
        if off is None:
            return None
        cs = change_signature.ChangeSignature(p, res, off)
        changers = []
        for c in st["changers"]:
            if c[0] == "remove":
                changers.append(change_signature.ArgumentRemover(c[1]))
            elif c[0] == "add":
                changers.append(change_signature.ArgumentAdder(c[1], c[2], c[3], c[4]))
            elif c[0] == "normalize":
                changers.append(change_signature.ArgumentNormalizer())
            elif c[0] == "reorder":
                changers.append(change_signature.ArgumentReorderer(c[1]))
            elif c[0] == "inline_default":
                changers.append(change_signature.ArgumentDefaultInliner(c[1]))
        if rs is not None:
            kw["resources"] = rs
        return cs.get_changes(changers, in_hierarchy=st.get("hier", False), **kw)
    if k == "introduce_parameter":
        off = _offset(u, st)
        if off is None:
            return None
        return introduce_parameter.IntroduceParameter(p, res, off).get_changes(st["new"])
    if k == "introduce_factory":
        off = _offset(u, st)
        if off is None:
            return None
        if rs is not None:
            kw["resources"] = rs
        return introduce_factory.IntroduceFactory(p, res, off).get_changes(st["new"], global_factory=st.get("global_", False), **kw)
    if k == "encapsulate_field":
        off = _offset(u, st)
        if off is None:
            return None
        if rs is not None:
            kw["resources"] = rs
        return encapsulate_field.EncapsulateField(p, res, off).get_changes(**kw)
    if k == "local_to_field":
        off = _offset(u, st)
        if off is None:
            return None
        return localtofield.LocalToField(p, res, off).get_changes()
    if k == "method_object":
        off = _offset(u, st)
        if off is None:
            return None
        return method_object.MethodObject(p, res, off).get_changes(classname=st["new"])
    if k == "module_to_package":
        return topackage.ModuleToPackage(p, res).get_changes()
    if k == "organize":
        org = ImportOrganizer(p)
        return getattr(org, st["action"])(res)
    if k == "restructure":
        r = restructure.Restructure(p, st["pattern"], st["goal"], args=st.get("args"))
        if rs is not None:
            kw["resources"] = rs
        return r.get_changes(**kw)
    if k == "use_function":
        off = _offset(u, st)
        if off is None:
            return None
        if rs is not None:
            kw["resources"] = rs
        return usefunction.UseFunction(p, res, off).get_changes(**kw)
    if k == "generate":
        off = _offset(u, st)
        if off is None:
            return None
        goal = _res(u, st["goal"]) if st.get("goal") else None
        g = generate.create_generate(st["gkind"], p, res, off, goal_resource=goal)
        return g.get_changes()
    raise kernel.HarnessError("unknown request kind %r" % k)


SUPPORTS_TASK_HANDLE = {"rename", "rename_module", "move_global", "move_module", "inline", "change_signature",
                        "introduce_factory", "encapsulate_field", "restructure", "use_function"}
SUPPORTS_RESOURCES = SUPPORTS_TASK_HANDLE


def norm_msg(exc):
    """Exception message with run-specific parts removed (part of the signature
    of an internal exception, so that another failure in the same function is
    not mistaken for a listed one)."""
    m = str(exc)
    m = kernel.scrub(m)
    m = re.sub(r"/[\w./-]+", "<path>", m)
    m = re.sub(r"\d+", "N", m)
    return m[:100]


def innermost_rope_frame(exc):
    tb = traceback.extract_tb(exc.__traceback__)
    for fr in reversed(tb):
        fn = fr.filename.replace(os.sep, "/")
        if "/rope/" in fn and "/ropesim/" not in fn:
            return "%s:%s" % (fn.split("/rope/", 1)[1], fr.name)
    return "?"


class EffectsEngine(Engine):
    prop = PROP
    name = "effects"
    level = "exploration"
    tiers = {
        "quick": {"runs": 6000, "wall": 170},
        "thorough": {"runs": 150000, "wall": 1800},
    }
    components_real = [
        "every refactoring class under rope.refactor (rename, move, extract, inline, change_signature, "
        "introduce_parameter/factory, encapsulate_field, localtofield, method_object, topackage, importutils "
        "organizer, restructure, usefunction) and rope.contrib.generate",
        "rope.base.project.Project.do / History / Change classes / _ResourceOperations", "rope.base.taskhandle",
        "ignored-resource matching, out-of-project (NoProject) resources via python_path", "kernel tmpfs",
    ]
    components_stub = [
        "the stopping thread (TaskHandle.stop() flipped inside the m-th notification of get_changes)",
        "observation only: SimFS call log, sys.addaudithook monitor, universe snapshots (bytes, type, inode, mtime)",
        "wall clock (simulated)",
    ]
    assumptions = [
        "the 'refused with the library's own error types' clause is a pure function of the request: it is checked on "
        "every request issued, but the simulator does not search the request space for it",
        "requests come from a closed grammar over one template program with an out-of-project sibling and an ignored folder",
        "reading a file (atime) is not a modification",
    ]
    rule = (
        "cases = requests (refactoring kind x target offset/region x new name x resources= restriction x optional task "
        "stop at the m-th job boundary) issued along a history on an evolving project, each computed under three monitors "
        "and by scheduler choice performed and undone; one evaluation = one request; non-trivial = a request that produced "
        "a change set touching >=2 resources, or that was refused/stopped after the project had already been modified by "
        "earlier performed requests, or a stop that fired at m>=1; distinct = by (kind, target, params, resources=, stop "
        "index, number of previously performed requests)"
    )

    # ------------------------------------------------------------------
    def gen_swarm(self, rng):
        return {
            "steps": rng.choice([4, 8, 12, 20]),
            "soa": rng.random() < 0.6,
            "save_objectdb": rng.random() < 0.3,
            "p_perform": rng.choice([0.3, 0.6, 0.9]),
            "p_undo": rng.choice([0.0, 0.3]),
            "p_malformed": rng.choice([0.0, 0.1, 0.3]),
            "p_stop": rng.choice([0.0, 0.15, 0.4]),
            "p_resources": rng.choice([0.0, 0.3]),
        }

    def gen_request(self, rng, u, swarm, step_no=0):
        t = kernel.snapshot(u.root)
        pyfiles = sorted(p for p, v in t.items() if isinstance(v, bytes) and p.endswith(".py") and not p.startswith(ROPEFOLDER))
        inproj = [p for p in pyfiles if not p.startswith("ignored_dir") and not p.startswith("gen/")]
        kinds = (["rename"] * 6 + ["rename_module"] * 2 + ["move_global"] * 2 + ["move_module", "move_method"] +
                 ["extract_method"] * 2 + ["extract_variable"] * 2 + ["inline"] * 2 + ["change_signature"] * 2 +
                 ["introduce_parameter", "introduce_factory", "encapsulate_field", "local_to_field", "method_object",
                  "module_to_package", "organize", "organize", "restructure", "use_function", "generate", "multi_rename", "multi_rename", "multi_move_global", "multi_move_module"])
        k = rng.choice(kinds)
        pathpool = inproj * 8 + pyfiles + ["ext:extmod.py", "ext:extpkg/__init__.py", "ext:extpkg/tools.py", "notes.txt"]
        st = {"kind": k, "path": rng.choice(pathpool)}
        malformed = rng.random() < swarm["p_malformed"]
        if k in ("rename", "multi_rename", "multi_move_global", "move_global", "move_method", "inline", "change_signature", "introduce_parameter",
                 "introduce_factory", "encapsulate_field", "local_to_field", "method_object", "use_function", "generate"):
            # pick an identifier that occurs in the file
            try:
                text = _res(u, st["path"]).read()
            except Exception:
                text = ""
            present = [i for i in IDENTS if find_offsets(text, i)]
            st["ident"] = rng.choice(present) if present else rng.choice(IDENTS)
            st["occ"] = rng.randrange(4)
            if malformed:
                if rng.random() < 0.5:
                    st["raw_offset"] = rng.randint(0, max(0, len(text)))
                else:
                    st["nudge"] = rng.choice([-1, 1, 2])
        # fresh names never collide with something that already exists in the evolving project
        st["new"] = rng.choice(NEWNAMES[:4]) + "_%d" % (rng.randint(0, 99) * 1000 + step_no) if not malformed or rng.random() < 0.5 else rng.choice(NEWNAMES)
        if k == "rename":
            st["docs"] = rng.random() < 0.2
            st["hier"] = rng.random() < 0.2
        if k == "rename_module":
            st["path"] = rng.choice(inproj + ["pkg", "ext:extmod.py", "ext:extpkg", "ignored_dir/ig.py"])
        if k == "move_global":
            st["dest"] = rng.choice(["pkg.util", "pkg.sibling", "app", "core", "extmod", "nosuch.module", "pkg"])
            if rng.random() < 0.3:
                st["dest"] = rng.choice(inproj + ["ext:extmod.py"])
                st["dest_is_resource"] = True
        if k == "multi_move_global":
            st["dest"] = rng.choice(["pkg/util.py", "app.py", "pkg/sibling.py"])
            st["dest_is_resource"] = True
            st["path"] = rng.choice(["core.py", "core.py", "pkg/sibling.py", "app.py"])
            st["ident"] = rng.choice(["compute", "make_shape", "Shape", "double", "GLOBAL", "twice"])
        if k == "multi_move_module":
            st["path"] = rng.choice([p for p in inproj if not p.endswith("__init__.py")] or ["core.py"])
            st["dest"] = rng.choice(["pkg", "pkg", ""])
        if k == "move_module":
            st["path"] = rng.choice(inproj + ["pkg"])
            st["dest"] = rng.choice(["pkg", "", "pkg", "", "ignored_dir", "ext:extpkg", "pkg/util.py"])
        if k == "move_method":
            st["dest_attr"] = rng.choice(["tool", "size", "nosuch"])
        if k in ("extract_method", "extract_variable"):
            st["fragment"] = rng.choice(FRAGMENTS)
            st["path"] = rng.choice(["core.py", "core.py", "app.py", "pkg/util.py", "pkg/sibling.py"])
            st["similar"] = rng.random() < 0.3
            st["global_"] = rng.random() < 0.2
            if malformed:
                if rng.random() < 0.5:
                    st["ds"], st["de"] = rng.choice([-2, -1, 1, 2]), rng.choice([-2, -1, 1, 2])
                else:
                    a = rng.randint(0, 600)
                    st["raw_region"] = [a, a + rng.randint(0, 60)]
        if k == "inline":
            st["remove"] = rng.random() < 0.8
            st["only_current"] = rng.random() < 0.2
        if k == "change_signature":
            ch = rng.choice([
                [["remove", 0]], [["remove", 1]], [["add", 1, "extra", "None", "0"]], [["normalize"]],
                [["reorder", [1, 0]]], [["inline_default", 1]], [["add", 0, "first", None, "1"], ["normalize"]],
                [["remove", 5]], [["reorder", [0]]],
            ])
            st["changers"] = ch
            st["hier"] = rng.random() < 0.2
        if k == "introduce_factory":
            st["global_"] = rng.random() < 0.5
        if k == "organize":
            st["action"] = rng.choice(["organize_imports", "expand_star_imports", "froms_to_imports",
                                       "relatives_to_absolutes", "handle_long_imports"])
        if k == "restructure":
            pat = rng.choice([
                ("${a} * ${b}", "${b} * ${a}", None), ("${x}.area()", "${x}.area()", None),
                ("${f}(${v})", "${f}(${v})", {"f": "name=core.compute"}), ("compute(${v})", "compute(${v}, 2)", None),
                ("${a} + ${b}", "(${b} + ${a})", None), ("${", "x", None), ("${a} * 2", "${a} << 1", None),
            ])
            st["pattern"], st["goal"], st["args"] = pat
        if k == "generate":
            st["gkind"] = rng.choice(["variable", "function", "class", "module", "package"])
            if rng.random() < 0.3 and inproj:
                st["goal"] = rng.choice(inproj)
        if k in SUPPORTS_RESOURCES and rng.random() < swarm["p_resources"]:
            pool = pyfiles + ["ext:extmod.py"]
            st["resources"] = sorted(set(rng.sample(pool, rng.randint(0, min(3, len(pool))))))
        if k in SUPPORTS_TASK_HANDLE and rng.random() < swarm["p_stop"]:
            st["stop_at"] = rng.choice([-1, 0, 1, 2, 3, 5])
        elif k in SUPPORTS_TASK_HANDLE and rng.random() < 0.3:
            st["progress"] = True  # a task handle whose observer only displays progress
        st["perform"] = rng.random() < swarm["p_perform"]
        st["undo"] = rng.random() < swarm["p_undo"]
        if st["new"] in ("1bad", "has space", ""):
            st["perform"] = False  # rope does not validate new names; what such a change does is unspecified
        st["malformed"] = bool(
            malformed
            or st.get("raw_offset") is not None or st.get("nudge") or st.get("ds") or st.get("de") or st.get("raw_region")
            or st["new"] in NEWNAMES[4:]
            or (k == "restructure" and st["pattern"] == "${")
            or (k == "change_signature" and any((c[0] in ("remove", "inline_default") and c[1] > 1) or (c[0] == "reorder" and len(c[1]) < 2) for c in st["changers"]))
            or (k == "move_module" and (st["dest"] in ("pkg/util.py",) or st["dest"] == st["path"] or st["dest"].startswith(st["path"] + "/")))
            or (k == "move_method" and st["dest_attr"] == "nosuch")
            or st["path"] == "notes.txt"
            or (k == "move_module" and st["dest"].startswith("ext:"))
            or (k == "module_to_package" and (st["path"].endswith("__init__.py") or not st["path"].endswith(".py")))
        )
        if st["malformed"]:
            # malformed requests are computed (effect clauses checked) but never performed,
            # so the evolving project stays a sane Python program
            st["perform"] = False
        return st

    # ------------------------------------------------------------------
    def run(self, run_seed):
        rng = kernel.rng_for("effects", run_seed)
        swarm = self.gen_swarm(rng)
        return self._go({"swarm": swarm, "steps": None, "key": "%016x" % run_seed}, rng)

    def replay(self, trace):
        return self._go(trace, None)

    def _multi(self, out, u, st, i, sig, project_changes):
        """Multi-project refactoring: each project's change set may touch only its own project."""
        from rope.refactor import multiproject

        roots = {id(u.project): "proj", id(u.project2): "proj2"}
        announced = set()
        for proj, cs in project_changes:
            base = roots.get(id(proj))
            for r in cs.get_changed_resources():
                if r is None:
                    continue
                if r.project is not proj or base is None:
                    is_target = os.path.realpath(r.real_path) == os.path.realpath(os.path.join(u.root, *st["path"].split("/")))
                    out.violate("announces_forbidden_resource", dict(sig, what="other-project", resource_is_target=is_target),
                                {"step": i, "request": _brief(st), "resource": str(r.path)}, where=i)
                    return True
                announced.add(base + "/" + r.path.lstrip("/"))
        out.stats["probe_multi_project_changes"] += 1
        if len(announced) >= 2:
            out.nontrivial(_key(st), "multi")
        if not st.get("perform"):
            return True
        pre = u.snap(meta=False)
        audit_start(u.dir)
        pexc = None
        try:
            multiproject.perform(project_changes)
        except Exception as e:
            pexc = e
        events = audit_stop()
        post = u.snap(meta=False)
        changed = sorted(k for k in set(pre) | set(post) if pre.get(k) != post.get(k))
        touched = set(changed) | {p for _, p in events}
        out.stats["performed"] += 1
        out.log.add(ev="perform_multi", i=i, exc=type(pexc).__name__ if pexc else None, changed=changed)
        if pexc is not None:
            out.violate("perform_failed_and_left_changes" if post != pre else "internal_exception",
                        dict(sig, exc=type(pexc).__name__, frame=innermost_rope_frame(pexc), msg=norm_msg(pexc), phase="perform"),
                        {"step": i, "request": _brief(st), "exc": repr(pexc)[:300], "changed": changed[:8]}, where=i)
            return post == pre
        bad = [p for p in sorted(touched) if not any(p == a or p.startswith(a + "/") for a in announced)]
        for p in bad[:3]:
            out.violate("unannounced_path_modified", dict(sig), {"step": i, "request": _brief(st), "path": p,
                                                                 "announced": sorted(announced)}, where=i)
        for a in sorted(announced):
            if not any(x == a or x.startswith(a + "/") for x in touched):
                out.violate("announced_but_untouched", dict(sig), {"step": i, "request": _brief(st), "path": a}, where=i)
                return False
        return not bad

    def _go(self, trace, rng):
        from rope.base import exceptions

        out = Outcome(PROP)
        swarm = trace["swarm"]
        out.swarm = swarm
        key = trace.get("key") or kernel.short_hash(trace.get("steps"))
        u = Universe(swarm, key)
        steps_out = []
        performed = 0
        try:
            given = trace.get("steps")
            n = swarm["steps"] if given is None else len(given)
            for i in range(n):
                st = self.gen_request(rng, u, swarm, i) if given is None else given[i]
                steps_out.append(st)
                u.clock.advance(1_000_000_000)
                out.evals += 1
                k = st["kind"]
                out.stats["req_" + k] += 1
                sig = {"kind": k}
                if str(st.get("dest", "")).startswith("ext:"):
                    sig["dest_out_of_project"] = True
                if any(str(x).startswith("ext:") for x in [st["path"], st.get("dest", ""), st.get("goal", "")] + list(st.get("resources") or [])):
                    sig["names_out_of_project"] = True  # the request itself names an out-of-project module
                # ---------------- compute window
                before = u.snap()
                u.fs.arm(None)
                stopper = None
                th = None
                if st.get("stop_at") is not None and k in SUPPORTS_TASK_HANDLE:
                    stopper = simfs.TaskStopper(stop_at=st["stop_at"])
                    th = stopper.handle
                    out.stats["exec_stop"] += 1
                elif st.get("progress") and k in SUPPORTS_TASK_HANDLE:
                    th = simfs.TaskStopper(stop_at=None).handle
                    out.stats["exec_progress_observer"] += 1
                audit_start(u.dir)
                exc = None
                changes = None
                hung = False
                try:
                    with _watchdog(HANG_LIMIT_S):
                        changes = build_request(u, st, th)
                except kernel.HarnessError:
                    audit_stop()
                    raise
                except RequestHang:
                    hung = True
                except Exception as e:
                    exc = e
                events = audit_stop()
                if hung:
                    # not a refusal at all: the request never returns (wall-clock watchdog;
                    # ordinary requests take milliseconds)
                    out.stats["request_hung"] += 1
                    out.violate("request_hangs", dict(sig, malformed=bool(st.get("malformed"))),
                                {"step": i, "request": _brief(st), "limit_s": HANG_LIMIT_S}, where=i)
                    break
                after = u.snap()
                fs_calls = list(u.fs.log)
                stopped = bool(stopper and stopper.fired)
                if stopped:
                    out.stats["fired_stop"] += 1
                pure = True
                if fs_calls or events or after != before:
                    pure = False
                    diff = _meta_diff(before, after)
                    out.violate(
                        "compute_not_pure", dict(sig, refused=exc is not None, stopped=stopped),
                        {"step": i, "request": _brief(st), "fs_calls": fs_calls[:6], "audit": events[:6], "changed": diff[:6],
                         "exc": repr(exc)[:200] if exc else None},
                        where=i,
                    )
                out.log.add(ev="compute", i=i, kind=k, exc=type(exc).__name__ if exc else None, pure=pure,
                            n=len(changes.changes) if changes is not None and hasattr(changes, "changes") else None)
                if exc is not None:
                    out.stats["refused"] += 1
                    en = type(exc).__name__
                    out.stats["exc_" + en] += 1
                    if performed:
                        out.nontrivial(_key(st), performed, "refused")
                    if stopped and st["stop_at"] >= 1:
                        out.nontrivial(_key(st), "stop", st["stop_at"])
                    if not isinstance(exc, exceptions.RopeError) and st.get("malformed"):
                        # error-type clause is not decided for malformed requests (pure function of the
                        # request, not searched by this technique); the effect clauses above still are
                        out.stats["malformed_request_internal_exc_" + en] += 1
                    elif not isinstance(exc, exceptions.RopeError):
                        sig2 = dict(sig, exc=en, frame=innermost_rope_frame(exc), msg=norm_msg(exc))
                        if isinstance(exc, RecursionError):
                            sig2["non_package_folder"] = _has_non_package_folder(u)
                        out.violate(
                            "internal_exception", sig2,
                            {"step": i, "request": _brief(st), "exc": repr(exc)[:300], "frame": sig2["frame"]},
                            where=i,
                        )
                    elif stopped and not isinstance(exc, exceptions.InterruptedTaskError):
                        out.stats["stopped_but_other_rope_error"] += 1
                    if not pure:
                        break
                    continue
                if not pure:
                    break
                if changes is None:
                    out.stats["not_formed"] += 1
                    continue
                if stopped:
                    out.stats["stop_too_late"] += 1
                if isinstance(changes, tuple) and changes[0] == "multi":
                    if not self._multi(out, u, st, i, sig, changes[1]):
                        break
                    performed += 1 if st.get("perform") else 0
                    continue
                # ---------------- announced resources
                ann = list(changes.get_changed_resources())
                ann_paths = []
                bad_ann = []
                ann_ext = []  # announced out-of-project files, as universe-relative paths
                for r in ann:
                    if r is None:
                        continue
                    if r.project is not u.project:
                        bad_ann.append("out-of-project:" + str(r.path))
                        rp = os.path.realpath(r.real_path)
                        if rp.startswith(os.path.realpath(u.dir) + os.sep):
                            ann_ext.append(os.path.relpath(rp, os.path.realpath(u.dir)).replace(os.sep, "/"))
                    else:
                        if u.project.is_ignored(r):
                            bad_ann.append("ignored:" + r.path)
                        if r.path.startswith("/"):
                            out.stats["probe_announced_path_with_leading_slash"] += 1
                        ann_paths.append(r.path.lstrip("/"))
                n_sub = _count(changes)
                if len(set(ann_paths)) >= 2:
                    out.nontrivial(_key(st), performed)
                    out.stats["probe_multi_resource_change"] += 1
                if st.get("resources") is not None and k in ("rename", "rename_module", "restructure", "use_function", "encapsulate_field"):
                    # occurrences are searched only in `resources`; the file the refactoring
                    # was invoked on is always fair game (function-local names; the defining module
                    # of use-function); a restructuring has no such file
                    allowed = {r.path for r in (_resources_arg(u, st) or [])}
                    try:
                        if k != "restructure":
                            allowed.add(_res(u, st["path"]).path)
                    except Exception:
                        pass
                    edits = _edited_paths(changes) | _moved_sources(changes, allowed)
                    extra = sorted(p for p in edits if p not in allowed)
                    if extra:
                        out.violate(
                            "resources_restriction_ignored", sig,
                            {"step": i, "request": _brief(st), "edited_outside_resources": extra, "resources": st["resources"]},
                            where=i,
                        )
                # a request that itself names an ignored or out-of-project module (as its
                # target, destination or in resources=) asked for it; only unrequested ones count
                named = [st.get("path", "")] + list(st.get("resources") or []) + [str(st.get("dest", "")), str(st.get("goal", ""))]
                asked_ignored = any(x.startswith("ignored_dir") or x.startswith("gen/") for x in named)
                asked_ext = any(x.startswith("ext:") for x in named)
                bad_ann = [b for b in bad_ann if not (b.startswith("ignored:") and asked_ignored)
                           and not (b.startswith("out-of-project:") and asked_ext)]
                if bad_ann:
                    out.violate("announces_forbidden_resource", dict(sig, what=bad_ann[0].split(":")[0]),
                                {"step": i, "request": _brief(st), "resources": bad_ann}, where=i)
                    continue  # performing it would write to an out-of-project or ignored module: do not
                if not st.get("perform"):
                    continue
                # ---------------- perform window
                try:
                    descs = _descriptions(changes)
                    whole_desc = changes.get_description()
                except Exception as e:
                    out.violate("internal_exception", dict(sig, exc=type(e).__name__, frame=innermost_rope_frame(e), phase="preview", msg=norm_msg(e)),
                                {"step": i, "request": _brief(st), "exc": repr(e)[:300]}, where=i)
                    continue
                pre = u.snap(meta=False)
                u.fs.arm(None)
                audit_start(u.dir)
                pexc = None
                try:
                    if st.get("progress"):
                        u.project.do(changes, task_handle=simfs.TaskStopper(stop_at=None).handle)
                    else:
                        u.project.do(changes)
                except Exception as e:
                    pexc = e
                events = audit_stop()
                post = u.snap(meta=False)
                out.stats["performed"] += 1
                performed += 1
                changed = sorted(kk for kk in set(pre) | set(post) if pre.get(kk) != post.get(kk))
                touched = set(changed) | {p for _, p in events}
                out.log.add(ev="perform", i=i, exc=type(pexc).__name__ if pexc else None, changed=changed)
                out.state(kernel.tree_hash(post))
                if pexc is not None:
                    sigp = dict(sig, exc=type(pexc).__name__, frame=innermost_rope_frame(pexc))
                    if post != pre:
                        out.violate("perform_failed_and_left_changes", sigp,
                                    {"step": i, "request": _brief(st), "exc": repr(pexc)[:300], "changed": changed[:8]}, where=i)
                        break
                    if not isinstance(pexc, exceptions.RopeError) and st.get("malformed"):
                        out.stats["malformed_request_internal_exc_" + type(pexc).__name__] += 1
                    elif not isinstance(pexc, exceptions.RopeError):
                        out.violate("internal_exception", dict(sigp, phase="perform", msg=norm_msg(pexc)),
                                    {"step": i, "request": _brief(st), "exc": repr(pexc)[:300], "frame": sigp["frame"]}, where=i)
                    continue
                problems = []
                for pth in sorted(touched):
                    if not pth.startswith("proj/"):
                        if not (asked_ext and pth in ann_ext):
                            problems.append(("outside_project_root", pth))
                        continue
                    rel = pth[5:]
                    if rel == ROPEFOLDER or rel.startswith(ROPEFOLDER + "/"):
                        problems.append(("rope_folder_written_by_do", pth))
                        continue
                    if rel.startswith("ignored_dir") or (rel.startswith("gen/") and rel.endswith(".py")):
                        if not asked_ignored:
                            problems.append(("ignored_resource_modified", pth))
                        continue
                    if not any(rel == a or rel.startswith(a + "/") or a == "" for a in ann_paths):
                        # a parent folder's own entry changes type/exists when children are created: only bytes/type count
                        problems.append(("unannounced_path_modified", pth))
                for a in sorted(set(ann_paths)):
                    pa = "proj/" + a if a else "proj"
                    if not any(x == pa or x.startswith(pa + "/") for x in touched):
                        problems.append(("announced_but_untouched", pa))
                for cls, pth in problems[:4]:
                    out.violate(cls, sig, {"step": i, "request": _brief(st), "path": pth, "announced": sorted(set(ann_paths)),
                                           "changed": changed[:10]}, where=i)
                # preview
                for path, desc, kind in descs:
                    if kind != "edit":
                        if kind == "move" and not sig.get("names_out_of_project"):
                            src, dst = path
                            if ("proj/" + dst) not in post or ("proj/" + src) in post and ("proj/" + src) not in pre:
                                out.violate("preview_mismatch", dict(sig, what="move"),
                                            {"step": i, "request": _brief(st), "preview": desc}, where=i)
                        continue
                    old_b, new_b = pre.get("proj/" + path), post.get("proj/" + path)
                    if not isinstance(old_b, bytes) or not isinstance(new_b, bytes):
                        continue  # moved afterwards in the same change set
                    old_t = old_b.decode("utf-8", "replace").replace("\r\n", "\n")
                    new_t = new_b.decode("utf-8", "replace").replace("\r\n", "\n")
                    if _count_edits(changes, path) != 1:
                        continue
                    try:
                        got = apply_unified_diff(old_t, desc)
                    except Exception as e:
                        got = "unparsable: %r" % (e,)
                    out.stats["previews_checked"] += 1
                    if got != new_t:
                        out.violate("preview_mismatch", dict(sig, what="edit", final_newline=old_t.endswith("\n") and new_t.endswith("\n")),
                                    {"step": i, "request": _brief(st), "path": path, "preview_gives": got[:200], "written": new_t[:200]}, where=i)
                    if desc and desc not in whole_desc:
                        out.violate("preview_mismatch", dict(sig, what="set_description"),
                                    {"step": i, "request": _brief(st), "path": path}, where=i)
                if problems:
                    break
                # ---------------- undo
                if st.get("undo") and u.project.history.undo_list and u.project.history.undo_list[-1] is changes:
                    try:
                        u.project.history.undo()
                        back = u.snap(meta=False)
                        out.stats["undone"] += 1
                        performed -= 1
                        if back != pre:
                            out.violate("undo_not_exact", sig, {"step": i, "request": _brief(st),
                                                                "tree_diff": kernel.diff_trees(pre, back)}, where=i)
                            break
                    except Exception as e:
                        out.violate("undo_raised", dict(sig, exc=type(e).__name__), {"step": i, "request": _brief(st), "exc": repr(e)[:200]}, where=i)
                        break
            out.trace = {"swarm": swarm, "steps": steps_out, "key": key}
            out.schedules.add(kernel.short_hash([(s["kind"], s.get("perform"), s.get("undo")) for s in steps_out]))
            out.sim_s = u.clock.covered_s()
            out.sample = {"requests": [_brief(s) for s in steps_out[:8]]}
        finally:
            u.destroy()
        return out


def _has_non_package_folder(u):
    t = kernel.snapshot(u.root)
    for p, v in t.items():
        if v == kernel.DIR and not p.startswith(ROPEFOLDER) and (p + "/__init__.py") not in t:
            if any(q.startswith(p + "/") and q.endswith(".py") for q in t):
                return True
    return False


def _multi_dummy():
    return None


def _key(st):
    return [st["kind"], st.get("path"), st.get("ident"), st.get("occ"), st.get("fragment"), st.get("new"),
            st.get("resources"), st.get("stop_at"), st.get("changers"), st.get("dest"), st.get("action")]


def _brief(st):
    return {k: v for k, v in st.items() if v is not None and v is not False}


def _meta_diff(a, b):
    out = []
    for k in sorted(set(a) | set(b)):
        if a.get(k) != b.get(k):
            x, y = a.get(k), b.get(k)
            what = "created" if x is None else "deleted" if y is None else (
                "content" if x[1] != y[1] else "inode" if x[2] != y[2] else "mtime")
            out.append([k, what])
    return out


def _count(c):
    from rope.base import change as rc

    if isinstance(c, rc.ChangeSet):
        return sum(_count(x) for x in c.changes)
    return 1


def _edited_paths(c):
    from rope.base import change as rc

    if isinstance(c, rc.ChangeSet):
        out = set()
        for x in c.changes:
            out |= _edited_paths(x)
        return out
    if isinstance(c, rc.ChangeContents):
        return {c.resource.path}
    return set()


def _moved_sources(c, allowed):
    """Sources of moves that `resources=` does not cover (a package counts as
    covered when its __init__.py is listed)."""
    from rope.base import change as rc

    if isinstance(c, rc.ChangeSet):
        out = set()
        for x in c.changes:
            out |= _moved_sources(x, allowed)
        return out
    if isinstance(c, rc.MoveResource):
        p = c.resource.path
        if c.resource.is_folder():
            return set() if (p + "/__init__.py") in allowed or p in allowed else {p}
        return set() if p in allowed else {p}
    return set()


def _count_edits(c, path):
    from rope.base import change as rc

    if isinstance(c, rc.ChangeSet):
        return sum(_count_edits(x, path) for x in c.changes)
    return 1 if isinstance(c, rc.ChangeContents) and c.resource.path == path else 0


def _descriptions(c):
    """(path, description, kind) per basic change, taken before performing."""
    from rope.base import change as rc

    if isinstance(c, rc.ChangeSet):
        out = []
        for x in c.changes:
            out.extend(_descriptions(x))
        return out
    if isinstance(c, rc.ChangeContents):
        return [(c.resource.path, c.get_description(), "edit")]
    if isinstance(c, rc.MoveResource):
        return [((c.resource.path, c.new_resource.path), c.get_description(), "move")]
    return [(getattr(c.resource, "path", None), c.get_description(), "other")]


ENGINE = EffectsEngine()
