"""C11 -- undo and redo are exact inverses over any history of changes.

One run = one seeded history of do / refactoring / undo / redo / selective
undo-redo / drop steps on a real project, checked after every step against
the reference model: real tree == replay(base, undo list); list shapes; limit;
dependency closures; empty-list refusal; undo+redo round trip.
"""

from __future__ import annotations

from .. import gen, kernel
from ..model import HistoryModel, ModelError, flat_ops, is_ignored_path, touched_paths
from ..world import World, exec_history_step, gen_history_step, mirror_step
from .base import Engine, Outcome

PROP = "C11"


def gen_swarm(rng):
    return {
        "max_dirs": rng.choice([0, 1, 2, 3]),
        "min_files": 1,
        "max_files": rng.choice([2, 4, 6]),
        "max_ops": rng.choice([1, 2, 3, 5]),
        "removals": rng.random() < 0.15,
        "nest_p": rng.choice([0.0, 0.1, 0.3]),
        "limit": rng.choice([0, 1, 2, 3, 5, 32, 32, 100]),
        "steps": rng.choice([4, 8, 12, 20, 30]),
        "program": rng.random() < 0.4,
        "soa": rng.random() < 0.7,
        "ignored_p": rng.choice([0.0, 0.0, 0.1, 0.25]),
        "suffixless_p": rng.choice([0.0, 0.0, 0.3]),
        "bytes_p": rng.choice([0.0, 0.0, 0.1]),
        "weights": {
            "do": rng.choice([3, 6, 10]),
            "refactor": rng.choice([1, 3, 6]),
            "undo": rng.choice([1, 3]),
            "undo_sel": rng.choice([0, 2, 5]),
            "undo_drop": rng.choice([0, 1]),
            "undo_redo": rng.choice([0, 1]),
            "redo": rng.choice([1, 3]),
            "redo_sel": rng.choice([0, 2, 4]),
            "undo_empty": 1,
            "redo_empty": 1,
            "set_limit": rng.choice([0, 0, 1]),
            "api": rng.choice([0, 2, 4]),
            "clear": rng.choice([0, 0, 1]),
        },
    }


def gen_history_trace(rng, swarm=None):
    own = swarm is None
    swarm = swarm or gen_swarm(rng)
    if own and rng.random() < 0.15:
        swarm["explicit_history_limit"] = True
        swarm["weights"]["set_limit"] = 0  # (an explicit limit is fixed at construction)
    if swarm["program"]:
        init = gen.gen_program(rng, swarm)
    else:
        init = gen.gen_tree(rng, swarm)
    base = gen.tree_model_of(init)
    classes = gen.file_classes(init)
    model = HistoryModel(base, swarm["limit"])
    steps = []
    # generation consults only the model; refactoring steps are opaque to it
    # (their effect is known only when executed), so after a refactoring step
    # the generator's model may lag behind; steps are total, so that is safe.
    nid = 1
    for _ in range(swarm["steps"]):
        try:
            tree = model.current()
        except ModelError:
            break  # the model's own dependency rule did not suffice; execution reports it
        st = gen_history_step(rng, model, tree, classes, swarm, nid, program=swarm["program"])
        nid += 1
        steps.append(st)
        mirror_step(model, st)
    return {"init": init, "limit": swarm["limit"], "steps": steps, "swarm": swarm}


def _accept_remembered_newlines(model, want, snap, prev_snap):
    """A file without any line break has no newline convention: writing a
    multi-line text to it may use LF or the convention an earlier read found.
    If that is the only difference, let the model follow the file."""
    from ..model import encode_text

    if prev_snap is None:
        return False
    if not model._undo:
        # with a limit of 0 the step's record has already been folded into the model's base tree:
        # the same acceptance applies to the base
        differing = [k for k in set(snap) | set(want) if snap.get(k) != want.get(k)]
        if model.limit == 0 and len(differing) == 1:
            pth = differing[0]
            a, w = snap.get(pth), want.get(pth)
            lbfree = [v for v in prev_snap.values() if isinstance(v, bytes) and b"\n" not in v and b"\r" not in v]
            if isinstance(a, bytes) and isinstance(w, bytes) and lbfree and b"\r" not in w and \
                    a in (w.replace(b"\n", b"\r\n"), w.replace(b"\n", b"\r")):
                model.base.files[pth] = a
                return True
        return False
    differing = [k for k in set(snap) | set(want) if snap.get(k) != want.get(k)]
    if len(differing) != 1:
        return False
    pth = differing[0]
    a, w = snap.get(pth), want.get(pth)
    if not isinstance(a, bytes) or not isinstance(w, bytes):
        return False
    # the file (wherever it was before this step) had no line break
    lbfree = [v for v in prev_snap.values() if isinstance(v, bytes) and b"\n" not in v and b"\r" not in v]
    if not lbfree:
        return False
    for o in flat_ops(model._undo[-1]["ops"]):
        if o[0] == "edit":
            for alt in ("\r\n", "\r"):
                try:
                    if encode_text(o[2], alt) == a and encode_text(o[2], "\n") == w:
                        o[3:] = [alt]
                        return True
                except (UnicodeError, LookupError):
                    pass
    return False


def check_invariant(out, world, model, i, st, sig_extra=None, prev_snap=None):
    """real tree == replay(base, undo list); list shapes; limit."""
    sig = {"op": st["op"]}
    sig.update(sig_extra or {})
    h = world.project.history
    real_u = [c.description for c in h.undo_list]
    real_r = [c.description for c in h.redo_list]
    mod_u = [r["desc"] for r in model.undo]
    mod_r = [r["desc"] for r in model.redo]
    ok = True
    recorded_now = st["op"] in ("do", "refactor") and (
        (st["op"] == "do" and real_u and real_u[-1] == st["cs"]["desc"]) or (st["op"] == "refactor" and real_u and real_u[-1] == "rf%d" % st["id"])
        or model.limit == 0)
    ignored_only = st["op"] == "do" and all(is_ignored_path(x) for x in touched_paths(st["cs"]["ops"]))
    # the limit is enforced whenever something is put on the undo list: a recorded change or a redo
    appended = (recorded_now and not ignored_only) or (st["op"] in ("redo", "redo_sel", "undo_redo") and not sig.get("exc") and not sig.get("skipped"))
    if len(real_u) > model.limit and appended:
        ok = False
        out.violate("limit_exceeded", sig, {"step": i, "limit": model.limit, "undo_list": real_u}, where=i)
    if real_u != mod_u or real_r != mod_r:
        ok = False
        out.violate("history_shape", sig, {"step": i, "st": _brief(st), "real": [real_u, real_r], "model": [mod_u, mod_r]}, where=i)
    tu, tr = h.tobe_undone, h.tobe_redone
    if (tu.description if tu else None) != (mod_u[-1] if mod_u else None) or (tr.description if tr else None) != (mod_r[-1] if mod_r else None):
        ok = False
        out.violate("history_query", dict(sig, query="tobe_undone/tobe_redone"),
                    {"step": i, "real": [tu.description if tu else None, tr.description if tr else None], "model": [mod_u[-1:], mod_r[-1:]]}, where=i)
    snap = world.snapshot()
    # which recorded changes touched a given file (History.get_file_undo_list)
    probe = sorted(k for k, v in snap.items() if isinstance(v, bytes) and not is_ignored_path(k))[:1]
    for pth in probe:
        got = [c.description for c in h.get_file_undo_list(world.project.get_file(pth))]
        want_l = [r["desc"] for r in model.undo if any(o[0] != "set" and pth in ([o[1], o[2]] if o[0] == "move" else [o[1]]) and
                                                       (o[0] in ("edit", "bytes", "mkfile") or (o[0] in ("move", "remove") and o[3 if o[0] == "move" else 2] == "f"))
                                                       for o in flat_ops(r["ops"]))]
        if got != want_l:
            ok = False
            out.violate("history_query", dict(sig, query="get_file_undo_list"), {"step": i, "path": pth, "real": got, "model": want_l}, where=i)
    try:
        want = model.current().files
    except Exception as e:  # a surviving change cannot be replayed without an undone one
        out.violate("replay_impossible", sig, {"step": i, "st": _brief(st), "err": repr(e)}, where=i)
        return False, snap
    # ignored resources ('*~', '*.pyc') are outside the history's protection:
    # e.g. undoing the creation of a folder removes unrecorded ignored files in it
    vis = lambda d: {k: v for k, v in d.items() if not is_ignored_path(k)}  # noqa: E731
    if vis(snap) != vis(want) and _accept_remembered_newlines(model, vis(want), vis(snap), prev_snap):
        out.stats["probe_linebreak_free_file_convention_kept"] += 1
        want = model.current().files
    if vis(snap) != vis(want):
        ok = False
        out.violate("tree_mismatch", sig, {"step": i, "st": _brief(st), "tree_diff": kernel.diff_trees(vis(want), vis(snap))}, where=i)
    return ok, snap


def _brief(st):
    if st["op"] == "do":
        return {"op": "do", "ops": [o[:2] if o[0] != "move" else o[:3] for o in flat_ops(st["cs"]["ops"])]}
    return {k: v for k, v in st.items()}


class HistoryEngine(Engine):
    prop = PROP
    name = "history"
    level = "exploration"
    tiers = {
        "quick": {"runs": 20000, "wall": 150},
        "thorough": {"runs": 900000, "wall": 1800},
    }
    components_real = [
        "rope.base.project.Project", "rope.base.history.History (do/undo/redo/selective/drop/limit, _FindChangeDependencies)",
        "rope.base.change (all Change classes)", "rope.base.resources", "rope.refactor.rename.Rename (multi-file change sets, module moves)",
        "pycore observers incl. automatic static analysis", "kernel tmpfs",
    ]
    components_stub = ["wall clock stamped into change sets (simulated clock)", "fscommands wrapped by SimFS (no faults armed in this engine)"]
    assumptions = [
        "fault-free configuration (faults are C10's); single client",
        "a composite's destination paths are free and its sources exist when it runs (generated valid against the model)",
        "dependency between change sets = they list the same path, or one lists a path inside a folder the other lists",
    ]
    rule = (
        "cases = seeded histories (4-30 steps) of do / real rename refactoring / undo / redo / selective undo-redo / "
        "drop / undo+redo pair with per-run history limit and op mix; every step is one evaluation checked against the "
        "reference model; non-trivial = a step that is a selective undo/redo pulling >=2 change sets, or any undo/redo "
        "executed with >=2 entries on its list, or a do that truncates at the limit or clears a non-empty redo list; "
        "distinct = by (abstract signature of the history prefix: op kinds, sub-change kinds, indices, limit)"
    )

    def run(self, run_seed):
        rng = kernel.rng_for("history", run_seed)
        trace = gen_history_trace(rng)
        return self.execute(trace)

    def replay(self, trace):
        return self.execute(trace)

    def execute(self, trace):
        out = Outcome(PROP)
        out.trace = trace
        out.swarm = trace.get("swarm")
        swarm = trace.get("swarm") or {}
        limit = trace["limit"]
        explicit = bool(swarm.get("explicit_history_limit"))
        world = World(trace["init"], limit=(100 if explicit else limit), prefs={"automatic_soa": bool(swarm.get("soa", True))}, tag="c11-")
        if explicit:
            # the client gives the history its limit directly (History(project, maxundos=n)) instead of
            # through the max_history_items preference
            from rope.base.history import History

            own_history = History(world.project, maxundos=limit)
            world.project._history = own_history  # (where the lazy property keeps it)
            if world.project.history is not own_history:
                raise kernel.HarnessError("the explicitly constructed history is not the project's history")
        try:
            model = HistoryModel(kernel_tree(world), limit)
            sched = []
            prev_snap = world.snapshot()
            prefix = [limit]
            for i, st in enumerate(trace["steps"]):
                n_u, n_r = len(model.undo), len(model.redo)
                res = exec_history_step(world, model, st)
                out.evals += 1
                sched.append(st["op"])
                prefix.append(_abs_sig(st))
                out.stats["step_" + st["op"]] += 1
                if res.skipped:
                    out.stats["skipped"] += 1
                    out.log.add(ev="step", i=i, op=st["op"], skipped=True)
                    continue
                stop = False
                sig = {"op": st["op"]}
                if res.exc is not None:
                    en = type(res.exc).__name__
                    out.stats["exc_" + en] += 1
                    sig["exc"] = en
                    if res.info.get("empty"):
                        if not res.info.get("refused"):
                            out.violate("empty_not_refused", sig, {"step": i, "exc": repr(res.exc)[:200]}, where=i)
                        else:
                            out.stats["probe_empty_refused"] += 1
                    else:
                        sig["has_remove"] = bool(res.info.get("has_remove"))
                        if res.info.get("single") and res.info.get("unchanged") is False:
                            out.violate(
                                "failed_undo_left_changes", dict(sig),
                                {"step": i, "st": _brief(st), "exc": repr(res.exc)[:200], "tree_diff": res.info.get("diff"),
                                 "msg": "undo raised but tree or history changed"},
                                where=i,
                            )
                        out.violate(
                            "op_raised", sig,
                            {"step": i, "st": _brief(st), "exc": repr(res.exc)[:300], "msg": "a step valid in the model raised"},
                            where=i,
                        )
                        stop = True
                elif res.info.get("empty"):
                    out.violate("empty_not_refused", sig, {"step": i, "msg": "undo/redo on an empty list returned normally"}, where=i)
                else:
                    info = res.info
                    if info.get("deps_real") is not None and info["deps_real"] != info["deps_model"]:
                        out.violate(
                            "dependency_closure", sig,
                            {"step": i, "st": _brief(st), "rope": info["deps_real"], "model": info["deps_model"]},
                            where=i,
                        )
                    if st["op"] == "undo_redo" and not info.get("same", True):
                        out.violate("undo_redo_not_identity", sig, {"step": i, "tree_diff": info.get("diff")}, where=i)
                    # non-trivial probes
                    if info.get("n", 0) >= 2:
                        out.stats["probe_selective_pulled_2plus"] += 1
                        out.nontrivial(prefix)
                    elif st["op"] in ("undo", "redo", "undo_sel", "redo_sel", "undo_drop", "undo_redo") and max(n_u, n_r) >= 2:
                        out.nontrivial(prefix)
                    if st["op"] in ("do", "refactor"):
                        if n_r:
                            out.stats["probe_do_cleared_redo"] += 1
                            out.nontrivial(prefix)
                        if n_u >= limit:
                            out.stats["probe_limit_truncated"] += 1
                            out.nontrivial(prefix)
                        if st["op"] == "refactor":
                            out.stats["probe_refactoring_done"] += 1
                            if info.get("moves"):
                                out.stats["probe_refactoring_with_move"] += 1
                            if info.get("n_ops", 0) >= 2:
                                out.stats["probe_refactoring_multi_file"] += 1
                if stop:
                    out.log.add(ev="step", i=i, op=st["op"], exc=sig.get("exc"), stopped=True)
                    break
                ok, snap = check_invariant(out, world, model, i, st, {k: v for k, v in sig.items() if k != "op"}, prev_snap)
                prev_snap = snap
                th = kernel.tree_hash(snap)
                out.log.add(ev="step", i=i, op=st["op"], exc=sig.get("exc"), tree=th,
                            hist=[[r["desc"] for r in model.undo], [r["desc"] for r in model.redo]])
                out.state(th, [r["desc"] for r in model.undo], [r["desc"] for r in model.redo])
                if stop or not ok:
                    break
            out.schedules.add(kernel.short_hash(sched))
            out.sim_s = world.clock.covered_s()
            out.sample = {"limit": limit, "steps": [_brief(s) for s in trace["steps"][:12]]}
        finally:
            world.destroy()
        return out


def kernel_tree(world):
    from ..model import TreeModel

    return TreeModel(world.snapshot())


def _abs_sig(st):
    if st["op"] == "do":
        return ["do"] + [o[0] for o in flat_ops(st["cs"]["ops"])]
    if st["op"] == "refactor":
        return ["rf", st["kind"]]
    return [st["op"], st.get("i"), st.get("drop")]


ENGINE = HistoryEngine()
