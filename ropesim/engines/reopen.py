"""C12 -- closing and reopening a project loses nothing it promised to keep.

Twin run: project A is never closed, project B (same initial tree, sibling
scratch directory, save_history/save_objectdb on) is closed and reopened
wherever the scheduler's lifecycle actor says.  Both get the same steps.
"""

from __future__ import annotations

import json
import os

from .. import gen, kernel, realize
from ..model import HistoryModel, TreeModel, flat_ops
from ..world import World, exec_history_step, gen_history_step, mirror_step
from .base import Engine, Outcome
from .history import gen_swarm as history_swarm

PROP = "C12"
ROPEFOLDER = ".ropeproject"

STR_POOL = ["", "a", "x.y", "0", "12", "007", "-1", "None", "défi", "日本", "a b", "$x", "l", "t", "v", "data", "references", "items",
            # digit-like strings: str.isdigit / isdecimal / isnumeric disagree on these
            "²", "¹²³", "①", "1²", "٣", "１２", "½", "Ⅷ"]
INT_POOL = [0, 1, -1, 2, 7, 12, 10**12, -(10**9)]


def gen_hashable(rng, depth=0):
    r = rng.random()
    if r < 0.4 or depth >= 2:
        return rng.choice(STR_POOL)
    if r < 0.6:
        return rng.choice(INT_POOL)
    if r < 0.68:
        return None
    return tuple(gen_hashable(rng, depth + 1) for _ in range(rng.randint(0, 3)))


def gen_value(rng, depth=0):
    r = rng.random()
    if depth >= 3 or r < 0.3:
        return gen_hashable(rng, 2)
    if r < 0.5:
        return tuple(gen_value(rng, depth + 1) for _ in range(rng.randint(0, 3)))
    if r < 0.7:
        return [gen_value(rng, depth + 1) for _ in range(rng.randint(0, 3))]
    d = {}
    for _ in range(rng.randint(0, 3)):
        k = gen_hashable(rng, 1)
        if k == "$":
            continue
        d[k] = gen_value(rng, depth + 1)
    return d


def to_jsonable(v):
    """Trace encoding of a generated value (JSON has no tuples / non-str keys)."""
    if isinstance(v, tuple):
        return {"T": [to_jsonable(x) for x in v]}
    if isinstance(v, list):
        return {"L": [to_jsonable(x) for x in v]}
    if isinstance(v, dict):
        return {"D": [[to_jsonable(k), to_jsonable(x)] for k, x in v.items()]}
    return v


def from_jsonable(j):
    if isinstance(j, dict):
        if "T" in j:
            return tuple(from_jsonable(x) for x in j["T"])
        if "L" in j:
            return [from_jsonable(x) for x in j["L"]]
        return {from_jsonable(k): from_jsonable(x) for k, x in j["D"]}
    return j


def typed(v):
    """Canonical, type-carrying form (tuple != list, 1 != '1', True != 1)."""
    if isinstance(v, tuple):
        return ["tuple", [typed(x) for x in v]]
    if isinstance(v, list):
        return ["list", [typed(x) for x in v]]
    if isinstance(v, dict):
        return ["dict", sorted(([typed(k), typed(x)] for k, x in v.items()), key=kernel.canon)]
    return [type(v).__name__, v]


def objectdb_view(project):
    """files -> scopes -> (call_info, per_name), as typed plain data."""
    db = project.pycore.object_info.objectdb
    out = {}
    for path in sorted(db.files.keys()):
        scopes = {}
        fi = db.files[path]
        for key in sorted(fi.keys()):
            si = fi[key]
            scopes[key] = [typed(dict(si.call_info)), typed(dict(si.per_name))]
        out[path] = scopes
    return out


def side_file_views(world):
    """Decode the JSON *text* side files written by the same save."""
    from rope.base.serializer import json_to_python

    res = {}
    hp = os.path.join(world.root, world.ropefolder or ROPEFOLDER, "history.json")
    if os.path.exists(hp):
        with open(hp) as f:
            res["history"] = json.loads(f.read())
    op = os.path.join(world.root, world.ropefolder or ROPEFOLDER, "objectdb.json")
    if os.path.exists(op):
        with open(op) as f:
            raw = json.loads(f.read())
        view = {}
        for path in sorted(raw):
            scopes = {}
            for key in sorted(raw[path]):
                enc = raw[path][key]
                call_info, per_name = json_to_python(enc)
                scopes[key] = [typed(call_info), typed(per_name)]
            view[path] = scopes
        res["objectdb"] = view
    return res


SIBLING_LIB = {"shelf.py": "def put(x):\n    return x\n\n\nclass Shelf:\n    def add(self, item):\n        return item\n"}


class ReopenEngine(Engine):
    prop = PROP
    name = "reopen"
    level = "exploration"
    tiers = {
        "quick": {"runs": 10000, "wall": 150},
        "thorough": {"runs": 600000, "wall": 1800},
    }
    components_real = [
        "rope.base.project.Project/_DataFiles (real close(), real pickle+json files on tmpfs)",
        "rope.base.history.History._load_history/write", "rope.base.change.ChangeToData/DataToChange",
        "rope.base.serializer", "rope.base.oi.memorydb / objectdb / objectinfo", "rope.refactor.rename (workload)",
        "pycore incl. automatic static analysis (stores real object info)",
    ]
    components_stub = ["wall clock stamped into change sets (simulated clock, identical in both twins)"]
    assumptions = [
        "validate_objectdb is left at its default (False), so stored object information is kept verbatim",
        "failures during save are C18's; this engine injects only close/reopen points",
    ]
    rule = (
        "cases = seeded histories (do / rename refactorings / undo / redo / selective / drop / object-info stores with "
        "values from the serializer's grammar / module analysis) with close+reopen of twin B at scheduler-chosen points; "
        "one evaluation per step and per reopen; non-trivial = a reopen with >=1 change on the undo or redo list or >=1 "
        "stored scope, or a step executed from reloaded history (undo/redo after a reopen); distinct = by (history "
        "prefix signature incl. reopen positions)"
    )

    # ------------------------------------------------------------------
    def gen_trace(self, rng):
        swarm = history_swarm(rng)
        swarm["removals"] = False if rng.random() < 0.8 else swarm["removals"]
        swarm["limit"] = rng.choice([1, 2, 5, 32, 100])
        swarm["reopen_w"] = rng.choice([1, 2, 4])
        # variant: object information validated against the sources (entries follow moved files,
        # entries of vanished files are dropped at open); information then comes from real analysis only
        swarm["validate_objectdb"] = rng.random() < 0.2
        swarm["late_enable_objectdb"] = rng.random() < 0.15
        # the deprecated way of configuring the store: "memory" still means "as save_objectdb says"
        swarm["objectdb_type"] = rng.choice([None] * 8 + ["memory", "shelve"])
        # a rope folder with another name than the default one (created in the first session)
        swarm["ropefolder"] = rng.choice([None] * 6 + [".ropedata", ".cache/rope"])
        swarm["weights"]["set_limit"] = 0  # twins diverge once one of them is truncated at save: see the epilogue instead
        swarm["limit_epilogue"] = rng.random() < 0.3
        if swarm["validate_objectdb"]:
            swarm["removals"] = True
        swarm["oi_w"] = rng.choice([0, 2, 4])
        if swarm["program"]:
            init = gen.gen_program(rng, swarm)
        else:
            init = gen.gen_tree(rng, swarm)
        if rng.random() < 0.12:
            # file names that are not valid UTF-8 (legacy Latin-1 names on a UTF-8 system): Python
            # presents them with lone surrogates ('caf\udce9.txt'); they are legal paths for rope
            swarm["odd_names"] = True
            init = [e for e in init if e["p"] not in ("caf\udce9.txt", "m\udcfcnze.py")] + [
                {"p": "caf\udce9.txt", "text": "menu\n", "nl": "lf", "enc": "utf-8", "cls": None, "cookie": None},
                {"p": "m\udcfcnze.py", "text": "def coin(v):\n    return v\n\n\nc = coin(1)\n", "nl": "lf", "enc": "utf-8", "cls": None, "cookie": None}]
        if swarm["validate_objectdb"] and rng.random() < 0.5:
            # project code calls into a library outside the project: analysis stores what it learns
            # about that library's functions under the library's absolute path
            swarm["sibling_lib"] = True
            swarm["oi_w"] = max(swarm["oi_w"], 2)
            init = [e for e in init if e["p"] != "uses_shelf.py"] + [
                {"p": "uses_shelf.py", "text": "import shelf\n\n\nclass Apple:\n    pass\n\n\ndef keep(s):\n    return s\n\n\nr = shelf.put(Apple())\nk = shelf.Shelf().add(Apple())\nkept = keep(shelf.Shelf())\n",
                 "nl": "lf", "enc": "utf-8", "cls": None, "cookie": None}]
        base = gen.tree_model_of(init)
        classes = gen.file_classes(init)
        model = HistoryModel(base, swarm["limit"])
        steps = []
        nid = 1
        from ..model import ModelError

        have = {e["p"] for e in init}
        if swarm["validate_objectdb"] and {"m1.py", "m2.py", "pkg/m3.py", "pkg/m4.py"} <= have and rng.random() < 0.4:
            # information about two modules is collected and looked up; one of them is removed and the
            # other moved onto its path (the store follows moves when it validates); more information
            # about that path is collected; then the project is saved
            m1 = next(e["text"] for e in init if e["p"] == "m1.py")
            nl = "\n"
            scen = [
                {"op": "analyze", "path": "m2.py"}, {"op": "analyze", "path": "pkg/m4.py"}, {"op": "analyze", "path": "pkg/m4.py"},
                {"op": "do", "cs": {"id": 9201, "desc": "cs9201", "ops": [["remove", "pkg/m3.py", "f"]]}},
                {"op": "do", "cs": {"id": 9202, "desc": "cs9202", "ops": [["move", "m1.py", "pkg/m3.py", "f", False]]}},
                {"op": "do", "cs": {"id": 9203, "desc": "cs9203", "ops": [["edit", "pkg/m4.py", "from pkg.m3 import foo" + nl + nl + "q = foo(5)" + nl + "q2 = foo('s')" + nl]]}},
                {"op": "analyze", "path": "pkg/m4.py"},
            ]
            if rng.random() < 0.5:
                scen.insert(3, {"op": "reopen"})
            for st in scen:
                steps.append(st)
                if st["op"] == "do":
                    mirror_step(model, st)
            swarm["replace_module_scenario"] = True
            nid = 9300

        for _ in range(swarm["steps"]):
            r = rng.random() * (10 + swarm["reopen_w"] + swarm["oi_w"])
            if r < swarm["reopen_w"]:
                if rng.random() < 0.25:
                    steps.append({"op": "sync"})  # save now, keep using the same Project object
                    continue
                steps.append({"op": "reopen"})
                if rng.random() < 0.1:
                    steps[-1]["transient_read_fault"] = True
                if rng.random() < 0.2:
                    steps.append({"op": "reopen"})
                continue
            if r < swarm["reopen_w"] + swarm["oi_w"]:
                try:
                    files = model.current().file_paths()
                except ModelError:
                    break
                path = rng.choice(files) if files and rng.random() < 0.8 else rng.choice(["ghost.py", "x/y.py", ""])
                key = rng.choice(["", "f", "C.m", "0", "日本"])
                if swarm["validate_objectdb"]:
                    pys = [f for f in files if f.endswith(".py")]
                    if swarm.get("sibling_lib") and "uses_shelf.py" in pys and rng.random() < 0.5:
                        pys = ["uses_shelf.py"]
                    steps.append({"op": "analyze", "path": rng.choice(pys) if pys else path})
                    continue
                if rng.random() < 0.2:
                    # forget stored information (one file, or everything)
                    steps.append({"op": "oi", "kind": "del", "path": path if rng.random() < 0.5 else None})
                elif rng.random() < 0.5:
                    steps.append({"op": "oi", "kind": "call", "path": path, "key": key,
                                  "args": to_jsonable(tuple(gen_hashable(rng) for _ in range(rng.randint(0, 3)))),
                                  "value": to_jsonable(gen_value(rng))})
                elif rng.random() < 0.8:
                    steps.append({"op": "oi", "kind": "name", "path": path, "key": key,
                                  "name": rng.choice(STR_POOL), "value": to_jsonable(gen_value(rng))})
                else:
                    steps.append({"op": "analyze", "path": path})
                continue
            try:
                tree = model.current()
            except ModelError:
                break
            st = gen_history_step(rng, model, tree, classes, swarm, nid, program=swarm["program"])
            nid += 1
            steps.append(st)
            mirror_step(model, st)
        if not any(s["op"] == "reopen" for s in steps):
            steps.insert(rng.randint(0, len(steps)), {"op": "reopen"})
        return {"init": init, "limit": swarm["limit"], "steps": steps, "swarm": swarm}

    def run(self, run_seed):
        rng = kernel.rng_for("reopen", run_seed)
        return self.execute(self.gen_trace(rng))

    def replay(self, trace):
        return self.execute(trace)

    # ------------------------------------------------------------------
    def execute(self, trace):
        trace = kernel.jsonify(trace)
        out = Outcome(PROP)
        out.trace = trace
        out.swarm = trace.get("swarm")
        swarm = trace.get("swarm") or {}
        limit = trace["limit"]
        prefs = {"automatic_soa": bool(swarm.get("soa", True)), "save_history": True, "save_objectdb": True}
        if swarm.get("validate_objectdb"):
            prefs["validate_objectdb"] = True
            prefs["automatic_soa"] = True
        if swarm.get("objectdb_type"):
            prefs["objectdb_type"] = swarm["objectdb_type"]
        late = bool(swarm.get("late_enable_objectdb"))
        first = dict(prefs, save_objectdb=False) if late else prefs
        lib = SIBLING_LIB if swarm.get("sibling_lib") else None
        rf = swarm.get("ropefolder") or ROPEFOLDER
        A = World(trace["init"], limit=limit, ropefolder=rf, prefs=first, tag="c12a-", lib=lib)
        B = World(trace["init"], limit=limit, ropefolder=rf, prefs=first, tag="c12b-", lib=lib)
        if len(A.project.history.undo_list) or len(B.project.history.undo_list):
            out.violate("history_not_empty_in_new_project", {"op": "open", "ropefolder_default": rf == ROPEFOLDER},
                        {"undo_list": [c.description for c in B.project.history.undo_list],
                         "msg": "a project opened for the first time already has something to undo"}, where=0)
        if late:
            # the preference is switched on while the project is open (it is a live preference)
            for w in (A, B):
                w.project.set("save_objectdb", True)
                w.prefs["save_objectdb"] = True
            out.stats["probe_objectdb_saving_enabled_late"] += 1
        try:
            mA = HistoryModel(TreeModel(A.snapshot()), limit)
            mB = HistoryModel(TreeModel(B.snapshot()), limit)
            prefix = [limit]
            reopened = False
            limit_changed = False
            since_reopen_ops = 0
            for i, st in enumerate(trace["steps"]):
                op = st["op"]
                prefix.append(_abs_sig(st))
                out.evals += 1
                out.stats["step_" + op] += 1
                if op == "sync":
                    A.clock.advance(1_000_000_000)
                    B.clock.advance(1_000_000_000)
                    B.use()
                    try:
                        B.project.sync()
                    except Exception as e:
                        out.violate("close_raised", {"op": "sync", "exc": type(e).__name__}, {"step": i, "exc": repr(e)[:300]}, where=i)
                        break
                    out.stats["probe_sync_same_instance"] += 1
                    out.log.add(ev="sync", i=i)
                    continue
                if op == "reopen":
                    A.clock.advance(1_000_000_000)
                    B.clock.advance(1_000_000_000)
                    if st.get("transient_read_fault") and not self._session_with_unreadable_history(out, B, i):
                        break
                    if not self._reopen(out, B, i, prefix):
                        break
                    reopened = True
                    since_reopen_ops = 0
                    out.log.add(ev="reopen", i=i, hist=kernel.short_hash(realize.history_struct(B.project)))
                    continue
                if op == "oi":
                    if st["kind"] != "del":
                        # by-product check on the generated value itself (both encodings of the
                        # serializer, through JSON *text*); the stateful path is the save/reload below
                        rt = self._serializer_roundtrip(from_jsonable(st["value"]))
                        if rt is not None:
                            out.violate("json_text_roundtrip", {"op": "oi", "file": "serializer", "version": rt[0]},
                                        {"step": i, "value": st["value"], "problem": rt[1]}, where=i)
                            break
                    self._oi(A, st)
                    self._oi(B, st)
                    A.clock.advance(1_000_000_000)
                    B.clock.advance(1_000_000_000)
                    out.log.add(ev="oi", i=i)
                    continue
                if op == "analyze":
                    ra = self._analyze(A, st)
                    rb = self._analyze(B, st)
                    A.clock.advance(1_000_000_000)
                    B.clock.advance(1_000_000_000)
                    out.log.add(ev="analyze", i=i, a=ra, b=rb)
                    if ra != rb:
                        out.violate("outcome_differs", {"op": op}, {"step": i, "a": ra, "b": rb}, where=i)
                        break
                    continue
                sb_prev = B.snapshot()
                hb_prev = realize.history_struct(B.project)
                ra = exec_history_step(A, mA, st)
                rb = exec_history_step(B, mB, st)
                ca = _outcome_class(ra)
                cb = _outcome_class(rb)
                sig = {"op": op, "after_reopen": reopened}
                if ca != cb:
                    out.violate(
                        "outcome_differs", sig,
                        {"step": i, "st": _brief(st), "never_closed": ca, "reopened": cb,
                         "exc_b": repr(rb.exc)[:200] if rb.exc else None},
                        where=i,
                    )
                    break
                if ra.skipped:
                    out.stats["skipped"] += 1
                    out.log.add(ev="step", i=i, op=op, skipped=True)
                    continue
                sa, sb = A.snapshot(), B.snapshot()
                ha, hb = realize.history_struct(A.project), realize.history_struct(B.project)
                out.log.add(ev="step", i=i, op=op, cls=ca, tree=kernel.tree_hash(sb), hist=kernel.short_hash(hb))
                out.state(kernel.tree_hash(sb), kernel.short_hash(hb))
                if reopened and op in ("undo", "redo", "undo_sel", "redo_sel", "undo_drop", "undo_redo") and ra.exc is None:
                    out.stats["probe_undo_redo_from_reloaded_history"] += 1
                    out.nontrivial(prefix)
                bad = False
                if sa != sb:
                    bad = True
                    differing = [k for k in set(sa) | set(sb) if sa.get(k) != sb.get(k)]
                    sig["newline_only"] = all(
                        isinstance(sa.get(k), bytes) and isinstance(sb.get(k), bytes) and _nl_norm(sa[k]) == _nl_norm(sb[k])
                        for k in differing
                    )
                    # the step's change sets edit a differing file from/to a text
                    # without any line break (so its newline convention cannot
                    # be learnt from the file at that moment)
                    descs = set((rb.info.get("deps_model") or []))
                    if not descs:
                        if op in ("undo", "undo_redo", "undo_drop") and hb_prev[0]:
                            descs = {hb_prev[0][-1][1]}
                        elif op == "redo" and hb_prev[1]:
                            descs = {hb_prev[1][-1][1]}
                    sig["via_linebreak_free_text"] = _edits_linebreak_free(hb_prev, descs, differing) or any(
                        isinstance(sb_prev.get(k), bytes) and b"\n" not in sb_prev[k] and b"\r" not in sb_prev[k]
                        for k in differing
                    )
                    out.violate(
                        "tree_differs_from_never_closed", sig,
                        {"step": i, "st": _brief(st), "tree_diff": kernel.diff_trees(sa, sb),
                         "msg": "expected = never-closed project, actual = closed-and-reopened project"},
                        where=i,
                    )
                if op == "set_limit":
                    limit_changed = True
                if ha != hb and limit_changed and len(hb[0]) < len(ha[0]) and ha[0][len(ha[0]) - len(hb[0]):] == hb[0] and ha[1] == hb[1]:
                    # the limit was lowered: it is enforced when the history is saved, so the twin
                    # that was saved holds a suffix of what the never-saved twin still holds
                    out.stats["probe_truncated_at_save"] += 1
                elif ha != hb:
                    bad = True
                    out.violate(
                        "history_differs_from_never_closed", sig,
                        {"step": i, "st": _brief(st), "never_closed": _hb(ha), "reopened": _hb(hb),
                         "first_diff": _first_diff(ha, hb)},
                        where=i,
                    )
                if ra.exc is not None and not ra.info.get("empty"):
                    # the same failure in both twins (e.g. undo of a removal): not this property's business
                    out.stats["both_raised_" + type(ra.exc).__name__] += 1
                    break
                if bad:
                    break
            if swarm.get("limit_epilogue") and not out.violations:
                self._limit_epilogue(out, B, len(trace["steps"]))
            out.schedules.add(kernel.short_hash([s["op"] for s in trace["steps"]]))
            out.sim_s = B.clock.covered_s()
            out.sample = {"limit": limit, "steps": [_brief(s) for s in trace["steps"][:14]]}
        finally:
            A.destroy()
            B.destroy()
        return out

    # ------------------------------------------------------------------
    def _limit_epilogue(self, out, B, i):
        """The configured limit is lowered while a longer history exists; it is
        enforced when the history is saved, so neither the saved nor the reloaded
        undo list may exceed it (twin A is not involved any more)."""
        n = len(B.project.history.undo_list)
        if n < 2:
            return
        new_limit = n // 2
        B.use()
        B.project.prefs.set("max_history_items", new_limit)
        B.prefs["max_history_items"] = new_limit
        out.evals += 1
        out.stats["probe_limit_lowered_before_save"] += 1
        try:
            B.project.close()
            kept = [c.description for c in B.project.history.undo_list]
            B.open()
            loaded = [c.description for c in B.project.history.undo_list]
        except Exception as e:
            out.violate("reopen_raised", {"op": "limit_epilogue", "exc": type(e).__name__}, {"step": i, "exc": repr(e)[:300]}, where=i)
            return
        if len(loaded) > new_limit or len(kept) > new_limit:
            out.violate("limit_exceeded_after_reopen", {"op": "limit_epilogue"},
                        {"step": i, "limit": new_limit, "in_memory_after_save": kept, "reloaded": loaded}, where=i)
        elif loaded != kept:
            out.violate("history_lost_on_reopen", {"op": "limit_epilogue", "what": "undo list"},
                        {"step": i, "before": kept, "after": loaded}, where=i)
        out.log.add(ev="limit_epilogue", i=i, limit=new_limit, kept=kept)

    def _session_with_unreadable_history(self, out, B, i):
        """A whole session in which the saved history could not be read (a transient error of the
        read, e.g. EMFILE): the project is closed, opened, its history asked for once - which
        fails -, and closed again.  The history on disk must survive that session untouched."""
        import builtins
        import errno

        import rope.base.project as rp

        hist_path = os.path.join(B.root, *(B.ropefolder or ROPEFOLDER).split("/"), "history")
        B.use()
        try:
            B.project.close()
        except Exception as e:
            out.violate("close_raised", {"op": "reopen", "exc": type(e).__name__}, {"step": i, "exc": repr(e)[:300]}, where=i)
            return False
        if not os.path.exists(hist_path):
            B.open()
            return True
        before = open(hist_path, "rb").read()
        B.open()

        def failing_open(file, mode="r", *a, **kw):
            if os.path.realpath(os.fspath(file)) == os.path.realpath(hist_path) and "r" in mode:
                raise OSError(errno.EMFILE, "injected fault (too many open files)")
            return builtins.open(file, mode, *a, **kw)

        had = rp.__dict__.get("open")
        rp.open = failing_open
        try:
            try:
                B.project.history
                asked = "returned"
            except OSError:
                asked = "raised"
        finally:
            if had is None:
                del rp.open
            else:
                rp.open = had
        out.stats["fired_history_read_fault"] += 1
        out.stats["exec_history_read_fault"] += 1
        try:
            B.project.close()
        except Exception as e:
            out.violate("close_raised", {"op": "reopen", "exc": type(e).__name__, "after": "unreadable history"},
                        {"step": i, "exc": repr(e)[:300]}, where=i)
            return False
        after = open(hist_path, "rb").read() if os.path.exists(hist_path) else None
        B.open()
        if after != before:
            out.violate("history_lost_on_reopen", {"op": "reopen", "what": "file rewritten by a session that could not read it"},
                        {"step": i, "asked": asked, "size_before": len(before), "size_after": None if after is None else len(after)}, where=i)
            return False
        return True

    def _reopen(self, out, B, i, prefix):
        p = B.project
        h_before = realize.history_struct(p)
        o_before = objectdb_view(p)
        n_hist = len(h_before[0]) + len(h_before[1])
        n_scopes = sum(len(v) for v in o_before.values())
        B.use()
        try:
            p.close()
        except Exception as e:
            out.violate("close_raised", {"op": "reopen", "exc": type(e).__name__}, {"step": i, "exc": repr(e)[:300]}, where=i)
            return False
        h_before = realize.history_struct(p)  # (saving enforces the limit on the in-memory list as well)
        side = {}
        try:
            side = side_file_views(B)
        except Exception as e:
            out.violate("side_file_undecodable", {"op": "reopen", "exc": type(e).__name__},
                        {"step": i, "exc": repr(e)[:300]}, where=i)
            return False
        try:
            B.open()
            h_after = realize.history_struct(B.project)
            o_after = objectdb_view(B.project)
        except Exception as e:
            out.violate("reopen_raised", {"op": "reopen", "exc": type(e).__name__}, {"step": i, "exc": repr(e)[:300]}, where=i)
            return False
        if n_hist or n_scopes:
            out.nontrivial(prefix)
            out.stats["probe_reopen_with_state"] += 1
        if any(c[0] == "move" and c[2] == "d" for cs in h_before[0] + h_before[1] for c in _flat_struct(cs)):
            out.stats["probe_reopen_with_folder_move"] += 1
        if any(_has_nested(cs) for cs in h_before[0] + h_before[1]):
            out.stats["probe_reopen_with_nested_set"] += 1
        ok = True
        lim = B.project.prefs.get("max_history_items", 100)
        if len(h_after[0]) > lim:
            ok = False
            out.violate("limit_exceeded_after_reopen", {"op": "reopen"},
                        {"step": i, "limit": lim, "undo_list": [c[1] for c in h_after[0]]}, where=i)
        if h_after != h_before:
            ok = False
            out.violate(
                "history_lost_on_reopen", {"op": "reopen", "what": _first_diff(h_before, h_after)[0]},
                {"step": i, "before": _hb(h_before), "after": _hb(h_after), "first_diff": _first_diff(h_before, h_after)},
                where=i,
            )
        if B.prefs.get("validate_objectdb"):
            # entries of files that no longer exist are dropped when the project is opened: by design
            live = {k for k, v in B.snapshot().items() if isinstance(v, bytes)}
            # (information about modules outside the project is stored under their absolute path)
            live |= {k for k in set(o_before) | set(o_after) if os.path.isabs(k) and os.path.isfile(k)}
            if any(os.path.isabs(k) for k in o_before if k in live):
                out.stats["probe_reopen_with_out_of_project_info"] += 1
            o_before = {k: v for k, v in o_before.items() if k in live}
            o_after = {k: v for k, v in o_after.items() if k in live}
            if "objectdb" in side:
                side["objectdb"] = {k: v for k, v in side["objectdb"].items() if k in live}
            out.stats["probe_reopen_validated_objectdb"] += 1
        if o_after != o_before:
            ok = False
            out.violate(
                "objectinfo_lost_on_reopen", {"op": "reopen"},
                {"step": i, "first_diff": _first_diff(o_before, o_after)}, where=i,
            )
        if "objectdb" in side and side["objectdb"] != o_before:
            ok = False
            out.violate(
                "json_text_roundtrip", {"op": "reopen", "file": "objectdb.json"},
                {"step": i, "first_diff": _first_diff(o_before, side["objectdb"])}, where=i,
            )
        if "history" in side:
            try:
                from rope.base import change as rc

                to_change = rc.DataToChange(B.project)
                decoded = [
                    [realize.struct_of(to_change(d)) for d in side["history"][0]],
                    [realize.struct_of(to_change(d)) for d in side["history"][1]],
                ]
            except Exception as e:
                decoded = ["undecodable", repr(e)[:200]]
            expected = h_before
            if decoded != h_before and _has_bytes(h_before):
                # contents handed over as bytes have no JSON form: the side file carries null for them
                # (it is not read back by rope; the pickle keeps the bytes) -- compared with bytes as null
                expected = _bytes_as_none(h_before)
                out.stats["probe_history_json_bytes_as_null"] += 1
            if decoded != expected:
                ok = False
                out.violate(
                    "json_text_roundtrip", {"op": "reopen", "file": "history.json"},
                    {"step": i, "first_diff": _first_diff(h_before, decoded)}, where=i,
                )
        return ok

    def _serializer_roundtrip(self, value):
        from rope.base.serializer import json_to_python, python_to_json

        for version in (1, 2):
            try:
                back = json_to_python(json.loads(json.dumps(python_to_json(value, version=version))))
            except Exception as e:
                return version, "raised %r" % (e,)
            if typed(back) != typed(value):
                return version, "decoded %r" % (back,)
        return None

    def _oi(self, world, st):
        # stored through the public FileDict / FileInfo / ScopeInfo interface;
        # ObjectDB.add_callinfo would first rank the value against the old one
        # (value[0]), which only makes sense for rope's own textual tuples
        files = world.project.pycore.object_info.objectdb.files
        if st["kind"] == "del":
            for path in list(files.keys()):
                if st["path"] is None or path == st["path"]:
                    del files[path]
            return
        value = from_jsonable(st["value"])
        if st["path"] not in files:
            files.create(st["path"])
        fi = files[st["path"]]
        if st["key"] not in fi:
            fi.create_scope(st["key"])
        si = fi[st["key"]]
        if st["kind"] == "call":
            si.add_call(from_jsonable(st["args"]), value)
        else:
            si.save_per_name(st["name"], value)

    def _analyze(self, world, st):
        from rope.base import exceptions

        p = world.project
        try:
            res = p.get_resource(st["path"])
        except exceptions.ResourceNotFoundError:
            return "missing"
        if res.is_folder() or not st["path"].endswith(".py"):
            return "not-python"
        try:
            p.pycore.analyze_module(res)
        except exceptions.ModuleSyntaxError:
            return "syntax"
        except Exception as e:
            return "exc:" + type(e).__name__
        return "ok"


def _has_bytes(h):
    return '["bytes",' in kernel.canon(h) or "['bytes'," in repr(h)


def _bytes_as_none(node):
    if isinstance(node, list):
        if len(node) == 2 and node[0] == "bytes" and isinstance(node[1], str):
            return None
        return [_bytes_as_none(x) for x in node]
    return node


def _nl_norm(b):
    return b.replace(b"\r\n", b"\n").replace(b"\r", b"\n")


def _edits_linebreak_free(hist, descs, paths):
    """Some edit of one of `paths` in the change sets named `descs` (None: any
    change set on either list) has a new or old text without a line break."""
    paths = set(paths)
    for cs in hist[0] + hist[1]:
        if descs is not None and cs[1] not in descs:
            continue
        for c in _flat_struct(cs):
            if c[0] == "edit":  # (the file may have been moved since: any path)
                if "\n" not in (c[3] if isinstance(c[3], str) else "\n") or "\n" not in (c[4] if isinstance(c[4], str) else "\n"):
                    return True
    return False


def _outcome_class(r):
    if r.skipped:
        return "skipped"
    if r.exc is not None:
        return "raised:" + type(r.exc).__name__
    return "ok"


def _flat_struct(c):
    if c[0] == "set":
        for x in c[3]:
            yield from _flat_struct(x)
    else:
        yield c


def _has_nested(cs):
    return any(x[0] == "set" for x in cs[3])


def _hb(h):
    return [[c[1] for c in h[0]], [c[1] for c in h[1]]]


def _first_diff(a, b, path="$"):
    if type(a) != type(b):
        return [path, _s(a), _s(b)]
    if isinstance(a, dict):
        for k in sorted(set(a) | set(b), key=str):
            if k not in a or k not in b:
                return ["%s[%r]" % (path, k), _s(a.get(k)), _s(b.get(k))]
            d = _first_diff(a[k], b[k], "%s[%r]" % (path, k))
            if d:
                return d
        return None
    if isinstance(a, (list, tuple)):
        if len(a) != len(b):
            return [path + ".len", len(a), len(b)]
        for i, (x, y) in enumerate(zip(a, b)):
            d = _first_diff(x, y, "%s[%d]" % (path, i))
            if d:
                return d
        return None
    return None if a == b else [path, _s(a), _s(b)]


def _s(v):
    s = repr(v)
    return s if len(s) < 160 else s[:160] + "..."


def _brief(st):
    if st["op"] == "do":
        return {"op": "do", "ops": [o[:2] if o[0] != "move" else o[:4] for o in flat_ops(st["cs"]["ops"])]}
    if st["op"] == "oi":
        return {"op": "oi", "kind": st["kind"], "path": st["path"], "key": st.get("key")}
    return dict(st)


def _abs_sig(st):
    if st["op"] == "do":
        return ["do"] + [o[0] for o in flat_ops(st["cs"]["ops"])]
    if st["op"] == "refactor":
        return ["rf", st["kind"]]
    if st["op"] == "oi":
        return ["oi", st["kind"], kernel.short_hash(st.get("value"))]
    return [st["op"], st.get("i"), st.get("drop")]


ENGINE = ReopenEngine()
