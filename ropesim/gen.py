"""Seeded generators: initial trees, file texts, abstract change sets.

Everything is drawn from the `random.Random` passed in; nothing else."""

from __future__ import annotations

from .model import DIR, ModelError, TreeModel, encode_text, is_under, parent_of, base_of

NAMES = ["a", "b", "c", "d", "mod", "pkg", "util", "x1"]
DIRNAMES = ["pkg", "sub", "lib", "d1", "d2", "core"]

# Top-level blocks; every text is a sequence of blocks, so it is valid Python
# (rope's automatic static analysis then really parses and caches the module).
LINES = [
    "x = 1",
    "y = 2",
    "def f(a):\n    return a + 1",
    "class C:\n    pass",
    "# comment",
    "name = 'café'",
    "s = 'Жук'",
    "t = '日本'",
    "",
    "z = 3 + 4",
    "import os",
    "def g():\n    v = 'x'\n    return v",
    "class D:\n    attr = 1\n    def m(self):\n        return self.attr",
]
BROKEN_LINES = ["    return a + 1", "def broken(:", "class :"]

ENCODINGS = [
    (None, None),
    (None, None),
    ("iso-8859-1", "latin"),
    ("utf-8", None),
    ("cp1251", "cyr"),
    ("koi8-r", "cyr"),
    ("shift_jis", "jp"),
    ("euc_jp", "jp"),
]

_CLASS_LINES = {
    "latin": ["name = 'café'", "v = 'üß'"],
    "cyr": ["s = 'Жук'"],
    "jp": ["t = '日本'"],
}


def gen_text(rng, enc_class=None, cookie=None, final_newline=None, min_lines=0):
    """A '\\n'-normalised text (possibly empty, possibly without final newline)."""
    n = rng.randint(min_lines, 5)
    pool = [l for l in LINES if l.isascii()]
    if enc_class is None and cookie is None:
        pool = list(LINES)  # utf-8 default: anything goes
    elif enc_class in _CLASS_LINES:
        pool = pool + _CLASS_LINES[enc_class] * 2
    elif cookie == "utf-8":
        pool = list(LINES)
    lines = [rng.choice(pool) for _ in range(n)]
    if lines and rng.random() < 0.12:
        lines[rng.randrange(len(lines))] = rng.choice(BROKEN_LINES)
    if cookie:
        lines.insert(0, "# -*- coding: %s -*-" % cookie)
    text = "\n".join(lines)
    if final_newline is None:
        final_newline = rng.random() < 0.75
    if final_newline and lines:
        text += "\n"
    return text


def gen_tree(rng, swarm):
    """Initial tree entries (see kernel.write_tree) and the per-file text
    class (so later edits stay encodable in the declared encoding)."""
    entries = []
    dirs = [""]
    for _ in range(rng.randint(0, swarm.get("max_dirs", 3))):
        parent = rng.choice(dirs)
        name = rng.choice(DIRNAMES)
        p = f"{parent}/{name}" if parent else name
        if p not in dirs:
            dirs.append(p)
            entries.append({"p": p, "dir": True})
    seen = set()
    for _ in range(rng.randint(swarm.get("min_files", 2), swarm.get("max_files", 6))):
        parent = rng.choice(dirs)
        name = rng.choice(NAMES) + rng.choice([".py", ".py", ".py", ".txt"])
        p = f"{parent}/{name}" if parent else name
        if p in seen or p in dirs:
            continue
        seen.add(p)
        cookie, cls = rng.choice(ENCODINGS) if swarm.get("encodings", True) else (None, None)
        nl = rng.choice(swarm.get("newlines", ["lf", "lf", "crlf", "cr"]))
        text = gen_text(rng, cls, cookie)
        entries.append(
            {"p": p, "text": text, "nl": nl, "enc": cookie or "utf-8", "cls": cls, "cookie": cookie}
        )
    return entries


def tree_model_of(entries):
    from .kernel import entry_bytes

    files = {}
    for e in entries:
        files[e["p"]] = DIR if e.get("dir") else entry_bytes(e)
    return TreeModel(files)


def file_classes(entries):
    return {e["p"]: (e.get("cls"), e.get("cookie")) for e in entries if not e.get("dir")}


def _decode_for_edit(data):
    """Model-side decoding used only to derive an *edit* of the current text."""
    from .model import declared_encoding

    for enc in ("utf-8",):
        try:
            t = data.decode(enc)
            d = declared_encoding(t.replace("\r\n", "\n").replace("\r", "\n"))
            if d and d.lower() not in ("utf-8", "utf8"):
                raise UnicodeError
            return t.replace("\r\n", "\n").replace("\r", "\n")
        except UnicodeError:
            pass
    t = data.decode("latin-1")
    t = t.replace("\r\n", "\n").replace("\r", "\n")
    d = declared_encoding(t)
    if d:
        try:
            return data.decode(d).replace("\r\n", "\n").replace("\r", "\n")
        except (UnicodeError, LookupError):
            pass
    return t


def gen_edit_text(rng, tree, path, classes):
    """New text for `path`: mostly a local edit of the current text (insert,
    delete or replace a line), sometimes a wholesale replacement."""
    cls, cookie = classes.get(path, (None, None))
    cur = tree.files.get(path, b"")
    r = rng.random()
    if r < 0.25 or not cur:
        return gen_text(rng, cls, cookie)
    text = _decode_for_edit(cur)
    if "def add(a, b):" in text and rng.random() < 0.2:
        # drop a parameter while recorded calls (and old object information) still pass two arguments
        return text.replace("def add(a, b):", "def add(a):")
    lines = text.split("\n")
    lo = 1 if cookie else 0
    pool = [l for l in LINES if l.isascii()] + _CLASS_LINES.get(cls, [])
    if cls is None and cookie in (None, "utf-8"):
        pool = list(LINES)
    # top-level boundaries: inserting/deleting whole blocks there keeps the
    # module syntactically valid most of the time
    tops = [k for k in range(lo, len(lines)) if not lines[k][:1].isspace()] or [len(lines)]
    i = rng.choice(tops)
    nxt = min([k for k in tops if k > i] + [len(lines)])
    r = rng.random()
    if r < 0.45:
        lines[i:i] = rng.choice(pool).split("\n")
    elif r < 0.7 and len(tops) > 1 and i < len(lines):
        del lines[i:nxt]
    elif i < len(lines):
        lines[i:nxt] = rng.choice(pool).split("\n")
    else:
        lines.extend(rng.choice(pool).split("\n"))
    if rng.random() < 0.08:
        lines.insert(rng.randint(lo, len(lines)), rng.choice(BROKEN_LINES))
    new = "\n".join(lines)
    try:
        encode_text(new, "\n")
    except (UnicodeError, LookupError):
        return gen_text(rng, cls, cookie)
    if new == text:
        new = new + ("\n" if not new.endswith("\n") else "") + "pass_%d = 0\n" % rng.randint(0, 99)
    return new


def _ign(path):
    from .model import is_ignored_path

    return is_ignored_path(path)


def _fresh_name(rng, tree, parent, candidates, suffix=""):
    for _ in range(8):
        n = rng.choice(candidates) + suffix
        p = f"{parent}/{n}" if parent else n
        if not tree.exists(p):
            return p
    n = "n%d%s" % (rng.randint(0, 9999), suffix)
    return f"{parent}/{n}" if parent else n


def gen_op(rng, tree: TreeModel, classes, swarm, recent=None):
    """One abstract sub-change valid in `tree` (which is NOT modified)."""
    kinds = ["edit"] * 5 + ["mkdir"] * 2 + ["mkfile"] * 2 + ["move"] * 3
    if swarm.get("removals"):
        kinds += ["remove"] * 2
    # ignored files are only touched by the dedicated ignored-only / mixed change sets
    files = [p for p in tree.file_paths() if not _ign(p)]
    dirs = tree.dirs()
    if files and rng.random() < swarm.get("bytes_p", 0.0):
        # contents handed over as already-encoded bytes (written verbatim)
        path = rng.choice(files)
        text = gen_edit_text(rng, tree, path, classes)
        try:
            raw = encode_text(text, rng.choice(["\n", "\n", "\r\n", "\r"]))
            return ["bytes", path, raw.decode("latin-1")]
        except (UnicodeError, LookupError):
            pass
    for _ in range(10):
        k = rng.choice(kinds)
        if k == "edit" and files:
            # bias towards a path the composite has just touched (dependent sub-changes)
            path = rng.choice(files)
            if recent and rng.random() < 0.5:
                rf = [p for p in recent if tree.is_file(p)]
                if rf:
                    path = rng.choice(rf)
            return ["edit", path, gen_edit_text(rng, tree, path, classes)]
        if k == "mkdir":
            parent = _pick_dir(rng, dirs, recent, tree)
            return ["mkdir", _fresh_name(rng, tree, parent, DIRNAMES)]
        if k == "mkfile":
            parent = _pick_dir(rng, dirs, recent, tree)
            if rng.random() < swarm.get("suffixless_p", 0.0):
                # a file whose name could as well be a folder's: over a history the same
                # path can then be a file at one time and a folder at another
                return ["mkfile", _fresh_name(rng, tree, parent, DIRNAMES)]
            return ["mkfile", _fresh_name(rng, tree, parent, NAMES, ".py")]
        if k == "move":
            movable = files + [d for d in dirs if d]
            if not movable:
                continue
            src = rng.choice(movable)
            if recent and rng.random() < 0.4:
                cand = [p for p in recent if tree.exists(p) and p]
                if cand:
                    src = rng.choice(cand)
            skind = "d" if tree.is_dir(src) else "f"
            dests = [d for d in dirs if d != src and not is_under(d, src)]
            if recent and rng.random() < 0.5:
                rd = [d for d in dests if d in recent]
                dests = rd or dests
            parent = rng.choice(dests)
            into = False
            if rng.random() < 0.5:
                name = base_of(src)
                into = rng.random() < 0.5
            else:
                name = rng.choice(NAMES if skind == "f" else DIRNAMES) + (".py" if skind == "f" else "")
            dst = f"{parent}/{name}" if parent else name
            grave = [g for g in swarm.get("_graveyard", []) if not tree.exists(g) and tree.is_dir(parent_of(g))
                     and g != src and not is_under(g, src)]
            if grave and skind == "f" and rng.random() < 0.4:
                # re-occupy the path of something removed earlier
                dst, into = rng.choice(grave), False
            if tree.exists(dst) or dst == src:
                continue
            return ["move", src, dst, skind, into]
        if k == "remove":
            cand = files + [d for d in dirs if d]
            if not cand:
                continue
            path = rng.choice(cand)
            return ["remove", path, "d" if tree.is_dir(path) else "f"]
    path = _fresh_name(rng, tree, "", NAMES, ".py")
    return ["mkfile", path]


def _pick_dir(rng, dirs, recent, tree):
    if recent and rng.random() < 0.6:
        rd = [d for d in recent if tree.is_dir(d)]
        if rd:
            return rng.choice(rd)
    return rng.choice(dirs)


def gen_bad_op(rng, tree: TreeModel):
    """A sub-change that fails *naturally* (no injected fault)."""
    files = tree.file_paths()
    dirs = tree.dirs()
    r = rng.random()
    if r < 0.2 and files:
        # text not encodable in the encoding its own coding line declares
        return ["edit", rng.choice(files), "# -*- coding: ascii -*-\ns = 'Жук'\n"]
    if r < 0.35 and files:
        return ["mkfile", rng.choice(files)]  # create over an existing path
    if r < 0.5 and len(dirs) > 1:
        return ["mkdir", rng.choice(dirs[1:])]
    if r < 0.75:
        return ["mkfile", "nosuchdir/zz.py"]  # missing parent
    if r < 0.9:
        return ["edit", "nosuchfile.py", "x = 1\n"]
    if r < 0.95 and files:
        # a file moved to a folder that does not exist (refused; nothing may be left behind)
        src = rng.choice(files)
        return ["move", src, "nosuchdir/deeper/" + src.rsplit("/", 1)[-1], "f", False]
    return ["move", "nosuchsrc.py", "moved.py", "f", False]


def gen_changeset(rng, tree: TreeModel, classes, swarm, ident, max_ops=None, allow_bad=False):
    """A composite valid-in-sequence against a copy of `tree`.

    Returns (record, tree_after | None).  tree_after is None when the composite
    fails naturally."""
    t = tree.copy()
    if not allow_bad and rng.random() < swarm.get("ignored_p", 0.0):
        # a change set touching only ignored resources ('*~', '*.pyc'):
        # rope performs it, clears redo, but does not record it
        ops = []
        for _ in range(rng.randint(1, 2)):
            ign = [p for p in t.file_paths() if p.endswith("~") or p.endswith(".pyc")]
            if ign and rng.random() < 0.5:
                op = ["edit", rng.choice(ign), gen_text(rng)]
            else:
                parent = rng.choice(t.dirs())
                name = rng.choice(NAMES) + rng.choice([".py~", ".pyc", "~"])
                p = f"{parent}/{name}" if parent else name
                if t.exists(p):
                    continue
                op = ["mkfile", p]
            t.apply(op)
            ops.append(op)
        if ops:
            return {"id": ident, "desc": "cs%d" % ident, "ops": ops}, t
    n = rng.randint(1, max_ops or swarm.get("max_ops", 5))
    ops = []
    recent = []
    bad_at = rng.randrange(n) if allow_bad else None
    failed = False
    cls = dict(classes)
    for i in range(n):
        if bad_at == i:
            op = gen_bad_op(rng, t)
        else:
            op = gen_op(rng, t, cls, swarm, recent)
        if op[0] != "set" and rng.random() < swarm.get("nest_p", 0.12):
            op = ["set", "nested%d" % i, [op]]
            if rng.random() < 0.5:
                # a second sub-change inside the same nested set
                t2 = t.copy()
                try:
                    t2.apply(op)
                    extra = gen_op(rng, t2, cls, swarm, recent)
                    t2.apply(extra)
                    op[2].append(extra)
                except ModelError:
                    pass
        try:
            t.apply(op)
        except ModelError:
            if bad_at != i:
                continue
            failed = True
            ops.append(op)
            break
        ops.append(op)
        for f in _flat(op):
            if f[0] == "remove" and f[2] == "f":
                swarm.setdefault("_graveyard", []).append(f[1])
            if f[0] == "move":
                recent.extend([f[2]])
                _move_classes(cls, f[1], f[2])
            else:
                recent.append(f[1])
    if not ops:
        op = ["mkfile", _fresh_name(rng, t, "", NAMES, ".py")]
        t.apply(op)
        ops.append(op)
    if not failed and rng.random() < swarm.get("idle_nest_p", 0.05):
        # a part of the composite that turned out to need nothing (e.g. "tidy every module",
        # one child set per module): an empty nested set, or one holding only an empty set
        idle = ["set", "idle%d" % ident, [] if rng.random() < 0.7 else [["set", "idle-inner%d" % ident, []]]]
        ops.insert(rng.randint(0, len(ops)), idle)
    if not failed and not allow_bad and rng.random() < swarm.get("ignored_p", 0.0):
        # an ordinary change set that also touches an ignored resource (recorded like any other);
        # the name is unique to this change set so it cannot collide with unmodelled ignored files
        op = ["mkfile", "mix%d.py~" % ident]
        try:
            t.apply(op)
            ops.insert(rng.randint(0, len(ops)), op)
        except ModelError:
            pass
    rec = {"id": ident, "desc": "cs%d" % ident, "ops": ops}
    if not failed:
        classes.clear()
        classes.update(cls)
    return rec, (None if failed else t)


def _flat(op):
    if op[0] == "set":
        for s in op[2]:
            yield from _flat(s)
    else:
        yield op


def _move_classes(classes, src, dst):
    for p in list(classes):
        if p == src or is_under(p, src):
            classes[dst + p[len(src) :]] = classes.pop(p)


# ---------------------------------------------------------------------------
# small multi-module programs (workload for real refactorings)

PROGRAM_TEMPLATES = [
    {
        "m1.py": "def foo(a):\n    return a + 1\n\n\ndef add(a, b):\n    return foo(a)\n\n\nsumm = add(1, 'x')\n\n\nclass K:\n    attr = 1\n\n    def meth(self):\n        return foo(self.attr)\n\n\nconst = 10\n",
        "m2.py": "from m1 import foo, K\n\nv = foo(2)\nk = K()\nw = k.meth()\n",
        "pkg/__init__.py": "",
        "pkg/m3.py": "import m1\nfrom m2 import v\n\n\ndef bar():\n    return m1.foo(v) + m1.const\n",
        "pkg/m4.py": "from pkg import m3\nfrom pkg.m3 import bar\n\nr = bar()\ns = m3.bar()\n",
    },
    {
        "alpha.py": "import beta\n\n\ndef run():\n    b = beta.Box(3)\n    return b.get()\n",
        "beta.py": "class Box:\n    def __init__(self, v):\n        self.v = v\n\n    def get(self):\n        return self.v\n\n\ndef make():\n    return Box(1)\n",
        "sub/__init__.py": "from beta import make\n",
        "sub/gamma.py": "from sub import make\nimport alpha\n\nthing = make()\nout = alpha.run()\n",
    },
]

PROGRAM_IDENTS = ["foo", "K", "const", "meth", "bar", "v", "Box", "get", "make", "run", "thing", "m1", "m3", "beta", "alpha", "attr", "add", "summ"]
NEW_IDENTS = ["renamed", "Other", "zed", "qux", "newmod", "item"]


def gen_program(rng, swarm=None):
    tpl = rng.choice(PROGRAM_TEMPLATES)
    nl = rng.choice(["lf", "lf", "crlf", "cr"])
    entries = []
    dirs = set()
    for p in sorted(tpl):
        d = p.rsplit("/", 1)[0] if "/" in p else ""
        if d and d not in dirs:
            dirs.add(d)
            entries.append({"p": d, "dir": True})
    for p in sorted(tpl):
        text = tpl[p]
        if rng.random() < 0.3 and text:
            text = text + "note = 'café Жук'\n"
        entries.append({"p": p, "text": text, "nl": nl if rng.random() < 0.8 else "lf", "enc": "utf-8", "cls": None, "cookie": None})
    return entries
