"""Simulation kernel: environment pinning, scratch space, snapshots, clock,
seed derivation, event log, delta-debugging, known-findings matching."""

from __future__ import annotations

import atexit
import copy
import hashlib
import json
import os
import random
import shutil
import sys
import time as _real_time  # only for wall-clock budgets and evidence, never in runs

VERIF_DIR = os.path.dirname(os.path.dirname(os.path.abspath(__file__)))
REPO = os.environ.get("VERIF_REPO", "/repo")
HASHSEED = os.environ.get("VERIF_HASHSEED", "0")
SHM = "/dev/shm" if os.path.isdir("/dev/shm") else "/var/tmp"
EMPTY_HOME = os.path.join(SHM, "ropesim-emptyhome")


class HarnessError(Exception):
    """A bug or an environmental problem in /verif itself (never a VIOLATION)."""


# ---------------------------------------------------------------------------
# environment pinning


def ensure_env(argv=None):
    """Re-exec once so that string hashing, HOME and XDG config are pinned."""
    want = {
        "PYTHONHASHSEED": HASHSEED,
        "HOME": EMPTY_HOME,
        "XDG_CONFIG_HOME": EMPTY_HOME,
        "PYTHONDONTWRITEBYTECODE": "1",
    }
    os.makedirs(EMPTY_HOME, exist_ok=True)
    if any(os.environ.get(k) != v for k, v in want.items()):
        env = dict(os.environ)
        env.update(want)
        env.setdefault("ROPE_VERIF_SIM", "1")
        os.execve(sys.executable, [sys.executable] + (argv or sys.argv), env)
    # the current working tree of the repository is what gets imported
    sys.path[:] = [p for p in sys.path if os.path.realpath(p or ".") != os.path.realpath(REPO)]
    sys.path.insert(0, REPO)
    import rope  # noqa

    if not os.path.realpath(rope.__file__).startswith(os.path.realpath(REPO) + os.sep):
        raise HarnessError(f"rope imported from {rope.__file__}, expected under {REPO}")


# ---------------------------------------------------------------------------
# scratch space (tmpfs)

_scratch_base = None
_scratch_n = 0


def scratch_base():
    global _scratch_base
    pid = os.getpid()
    want = os.path.join(SHM, f"ropesim-{pid}")
    if _scratch_base != want:
        _scratch_base = want
        os.makedirs(want, exist_ok=True)
        atexit.register(_cleanup, want, pid)
    return _scratch_base


def _cleanup(path, pid):
    if os.getpid() == pid:
        shutil.rmtree(path, ignore_errors=True)


def new_scratch(tag="r"):
    """A fresh empty directory.  The name does not influence rope's behaviour
    (resources hash and compare by project-relative path)."""
    global _scratch_n
    _scratch_n += 1
    d = os.path.join(scratch_base(), f"{tag}{_scratch_n}")
    os.makedirs(d)
    return d


def fixed_scratch(key: str):
    """A scratch directory whose absolute path is a function of `key` only.

    Needed where the absolute path itself influences the system under test:
    out-of-project resources are named (and hashed, hence ordered in sets) by
    their absolute path.  Falls back to a per-process path if another live
    process holds the same key."""
    base = os.path.join(SHM, "ropesim-fixed")
    os.makedirs(base, exist_ok=True)
    d = os.path.join(base, key)
    owner = os.path.join(base, key + ".pid")
    for _ in range(2):
        try:
            os.mkdir(d)
            with open(owner, "w") as f:
                f.write(str(os.getpid()))
            atexit.register(_cleanup_fixed, d, owner, os.getpid())
            return d
        except FileExistsError:
            try:
                pid = int(open(owner).read().strip() or "0")
            except (OSError, ValueError):
                pid = 0
            if pid and pid != os.getpid() and os.path.exists("/proc/%d" % pid):
                return new_scratch("fx-")  # held by a live process: stay correct, lose repeatability
            shutil.rmtree(d, ignore_errors=True)
    return new_scratch("fx-")


def _cleanup_fixed(d, owner, pid):
    if os.getpid() == pid:
        shutil.rmtree(d, ignore_errors=True)
        try:
            os.unlink(owner)
        except OSError:
            pass


def drop_fixed(path):
    shutil.rmtree(path, ignore_errors=True)
    try:
        os.unlink(path + ".pid")
    except OSError:
        pass


def drop_scratch(path):
    shutil.rmtree(path, ignore_errors=True)


def sweep_stale_scratch():
    """Remove scratch dirs of dead processes (crashed earlier batches)."""
    try:
        names = os.listdir(SHM)
    except OSError:
        return
    for n in names:
        if n.startswith("ropesim-") and n != "ropesim-emptyhome":
            pid = n.split("-", 1)[1]
            if pid.isdigit() and not os.path.exists(f"/proc/{pid}"):
                shutil.rmtree(os.path.join(SHM, n), ignore_errors=True)


# ---------------------------------------------------------------------------
# seeds


def derive_seed(*parts) -> int:
    h = hashlib.sha256(":".join(str(p) for p in parts).encode()).digest()
    return int.from_bytes(h[:8], "big")


def rng_for(*parts) -> random.Random:
    return random.Random(derive_seed(*parts))


# ---------------------------------------------------------------------------
# simulated clock


class SimClock:
    """Integer nanoseconds; the only clock simulated components read."""

    EPOCH = 1_700_000_000 * 10**9

    def __init__(self, start_ns=None):
        self.ns = self.EPOCH if start_ns is None else start_ns
        self.start = self.ns
        self.max_ns = self.ns

    def advance(self, delta_ns):
        self.ns += delta_ns
        self.max_ns = max(self.max_ns, self.ns)
        return self.ns

    def time(self):  # rope.base.change.time.time()
        return self.ns / 1e9

    def covered_s(self):
        return (self.max_ns - self.start) / 1e9


class TimeShim:
    """Stands in for the `time` module inside rope.base.change."""

    def __init__(self, clock):
        self._clock = clock

    def time(self):
        return self._clock.time()


# ---------------------------------------------------------------------------
# tree snapshots

DIR = "<dir>"


def snapshot(root, meta=False):
    """path -> DIR | bytes   (meta=True: path -> (kind, bytes|None, inode, mtime_ns))"""
    out = {}
    stack = [""]
    while stack:
        rel = stack.pop()
        full = os.path.join(root, rel) if rel else root
        try:
            names = sorted(os.listdir(full))
        except OSError:
            continue
        for n in names:
            r = f"{rel}/{n}" if rel else n
            p = os.path.join(full, n)
            if os.path.islink(p):
                val = "<link:%s>" % os.readlink(p)
                out[r] = val if not meta else ("l", val, 0, 0)
            elif os.path.isdir(p):
                if meta:
                    st = os.stat(p)
                    out[r] = ("d", None, st.st_ino, st.st_mtime_ns)
                else:
                    out[r] = DIR
                stack.append(r)
            else:
                with open(p, "rb") as f:
                    data = f.read()
                if meta:
                    st = os.stat(p)
                    out[r] = ("f", data, st.st_ino, st.st_mtime_ns)
                else:
                    out[r] = data
    return out


def scrub(s: str) -> str:
    """Remove the only run-specific token that can leak into observations: the
    per-process scratch directory name (it appears inside the tree when rope
    re-roots an absolute out-of-project path under the project)."""
    return _SCRUB2.sub(r"\1N", _SCRUB1.sub("ropesim-PID", s))


_SCRUB1 = __import__("re").compile(r"ropesim-(?:\d+|fixed/[0-9a-f]+)")
_SCRUB2 = __import__("re").compile(r"(ropesim-PID/[A-Za-z0-9]+-)\d+")


def _unused():
    return None


def tree_hash(snap) -> str:
    h = hashlib.sha256()
    for k in sorted(snap, key=scrub):
        v = snap[k]
        k = scrub(k)
        h.update(k.encode("utf-8", "surrogateescape"))
        h.update(b"\0")
        if isinstance(v, tuple):
            v = repr(v).encode("utf-8", "backslashreplace")
        elif isinstance(v, str):
            v = v.encode()
        h.update(hashlib.sha256(v).digest())
    return h.hexdigest()[:16]


def diff_trees(a, b, limit=6):
    """Human-readable difference between two snapshots (for violation detail)."""
    out = []
    for k in sorted(set(a) | set(b)):
        if a.get(k) != b.get(k):
            out.append({"path": k, "expected": _short(a.get(k)), "actual": _short(b.get(k))})
            if len(out) >= limit:
                break
    return out


def _short(v):
    if v is None:
        return None
    if isinstance(v, bytes):
        s = v[:80].decode("latin-1")
        return s + ("..." if len(v) > 80 else "")
    return str(v)[:80]


def file_modes(root):
    """path -> permission bits of every regular file (what a rewrite of a file must keep)."""
    out = {}
    for dp, dns, fns in os.walk(root):
        for n in fns:
            p = os.path.join(dp, n)
            if not os.path.islink(p):
                out[os.path.relpath(p, root).replace(os.sep, "/")] = os.stat(p).st_mode & 0o777
    return out


def write_tree(root, entries):
    """entries: list of {"p": path, "dir": True} | {"p": path, "text", "nl", "enc"}"""
    os.makedirs(root, exist_ok=True)
    for e in entries:
        p = os.path.join(root, *e["p"].split("/"))
        if e.get("dir"):
            os.makedirs(p, exist_ok=True)
        else:
            os.makedirs(os.path.dirname(p), exist_ok=True)
            with open(p, "wb") as f:
                f.write(entry_bytes(e))
            if e.get("mode"):
                os.chmod(p, e["mode"])


NL = {"lf": "\n", "crlf": "\r\n", "cr": "\r"}


def entry_bytes(e) -> bytes:
    if "b64" in e:
        import base64

        return base64.b64decode(e["b64"])
    return e["text"].replace("\n", NL[e.get("nl", "lf")]).encode(e.get("enc", "utf-8"))


def materialize(root, snap):
    """Write a snapshot (path -> DIR|bytes) to an empty directory."""
    os.makedirs(root, exist_ok=True)
    for k in sorted(snap):
        p = os.path.join(root, *k.split("/"))
        if snap[k] == DIR:
            os.makedirs(p, exist_ok=True)
        else:
            os.makedirs(os.path.dirname(p), exist_ok=True)
            with open(p, "wb") as f:
                f.write(snap[k])


# ---------------------------------------------------------------------------
# event log


class EventLog:
    """Canonical JSON lines; sha256 of the whole is the run digest.  Logging
    never draws from a PRNG and never reads a clock."""

    def __init__(self, keep=True):
        self.h = hashlib.sha256()
        self.lines = [] if keep else None
        self.n = 0

    def add(self, **ev):
        s = scrub(json.dumps(ev, sort_keys=True, ensure_ascii=True, default=_json_default))
        self.h.update(s.encode())
        self.h.update(b"\n")
        self.n += 1
        if self.lines is not None:
            self.lines.append(s)

    def digest(self):
        return self.h.hexdigest()[:20]


def _json_default(o):
    if isinstance(o, bytes):
        return "b:" + o.decode("latin-1")
    if isinstance(o, (set, frozenset)):
        return sorted(o)
    if isinstance(o, tuple):
        return list(o)
    return repr(o)


def canon(obj) -> str:
    return json.dumps(obj, sort_keys=True, ensure_ascii=True, default=_json_default)


def jsonify(obj):
    """The object as it comes back from its own JSON text.  Executions start from this form so
    that a run and the replay of its recorded trace agree even on object identity: equal strings
    that are one shared object in a freshly generated trace are memoised by pickle (rope's
    data files), which changes the saved bytes and with them the byte-prefix crash states."""
    return json.loads(json.dumps(obj, default=_json_default))


def short_hash(obj) -> str:
    return hashlib.sha256(canon(obj).encode()).hexdigest()[:16]


# ---------------------------------------------------------------------------
# rope process-global state


def reset_rope_globals():
    """Process-global singletons that would otherwise leak between runs."""
    import rope.base.project as rp

    rp.NoProject._no_project = None


# ---------------------------------------------------------------------------
# delta debugging over JSON traces

SHRINKABLE_KEYS = ("steps", "prelude", "ops", "init", "faults", "extra")


def _list_paths(node, path=()):
    """Yield paths to every reducible list inside a trace."""
    if isinstance(node, dict):
        for k in sorted(node):
            v = node[k]
            if isinstance(v, list) and k in SHRINKABLE_KEYS:
                yield path + (k,)
            yield from _list_paths(v, path + (k,))
    elif isinstance(node, list):
        for i, v in enumerate(node):
            yield from _list_paths(v, path + (i,))


def _get(node, path):
    for p in path:
        node = node[p]
    return node


def _with_list(trace, path, new_list):
    t = copy.deepcopy(trace)
    parent = _get(t, path[:-1])
    parent[path[-1]] = new_list
    return t


def ddmin_trace(trace, fails, budget=300):
    """Greedy delta debugging over every reducible list of `trace`.

    `fails(candidate) -> bool` re-executes the candidate deterministically and
    says whether the *same class* of violation is still reported."""
    spent = 0
    changed = True
    while changed and spent < budget:
        changed = False
        for path in list(_list_paths(trace)):
            try:
                cur = _get(trace, path)
            except (KeyError, IndexError, TypeError):
                continue
            if not isinstance(cur, list) or not cur:
                continue
            n = 2
            while len(cur) >= 1 and spent < budget:
                chunk = max(1, len(cur) // n)
                reduced = False
                i = 0
                while i < len(cur) and spent < budget:
                    cand_list = cur[:i] + cur[i + chunk :]
                    cand = _with_list(trace, path, cand_list)
                    spent += 1
                    ok = False
                    try:
                        ok = fails(cand)
                    except HarnessError:
                        ok = False
                    if ok:
                        trace, cur = cand, cand_list
                        reduced = changed = True
                    else:
                        i += chunk
                if chunk == 1:
                    break
                if not reduced:
                    n = min(len(cur), n * 2) if len(cur) > 1 else 1
                if not cur:
                    break
    return trace, spent


# ---------------------------------------------------------------------------
# known findings


def load_known_findings():
    p = os.path.join(VERIF_DIR, "known_findings.json")
    if not os.path.exists(p):
        return []
    with open(p) as f:
        return json.load(f)["findings"]


def match_known(prop, signature, findings):
    """Return the first `known` entry whose `match` dict is a subset of
    `signature`.  `fixed` entries never match (they suppress nothing)."""
    for e in findings:
        if e.get("property") != prop or e.get("status") != "known":
            continue
        m = e.get("match", {})
        if all(_match_value(signature.get(k), v) for k, v in m.items()):
            return e
    return None


def _match_value(actual, want):
    if isinstance(want, list):
        return actual in want
    return actual == want


def wall():
    return _real_time.monotonic()
