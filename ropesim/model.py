"""Reference models (oracles).  Plain dicts, lists and path strings; nothing
from rope is imported here."""

from __future__ import annotations

import re

DIR = "<dir>"


class ModelError(Exception):
    """The abstract operation's precondition does not hold in the model."""


def parent_of(path):
    return path.rsplit("/", 1)[0] if "/" in path else ""


def base_of(path):
    return path.rsplit("/", 1)[-1]


def is_under(path, folder):
    """path strictly inside folder ('' is the root)."""
    if path == folder:
        return False
    return folder == "" or path.startswith(folder + "/")


_COOKIE = re.compile(r"^[ \t\f]*#.*?coding[:=][ \t]*([-_.a-zA-Z0-9]+)")


def declared_encoding(text):
    for line in text.split("\n", 2)[:2]:
        m = _COOKIE.match(line)
        if m:
            return _normal_name(m.group(1))
    return None


def _normal_name(orig):
    """Python's own reading of a coding name (tokenize._get_normal_name / get_normal_name in
    tokenizer.c): 'utf-8-unix', 'latin-1-dos', ... name utf-8 / iso-8859-1."""
    enc = orig[:12].lower().replace("_", "-")
    if enc.startswith("utf-8-"):
        return "utf-8"
    if enc.startswith(("latin-1-", "iso-8859-1-", "iso-latin-1-")):
        return "iso-8859-1"
    return orig


def newline_of(data: bytes) -> str:
    """The newline convention a file's bytes exhibit (LF when there is none)."""
    if b"\r\n" in data:
        return "\r\n"
    if b"\r" in data:
        return "\r"
    return "\n"


def encode_text(text, nl, enc=None):
    """Bytes of a '\\n'-normalised text under a newline convention.  A coding
    line counts only if Python itself would see it: within the first two
    '\\n'-terminated lines of the *converted* text (in a CR-only file the whole
    text is one such line, so only a cookie at its very start is a cookie)."""
    converted = text.replace("\n", nl)
    enc = enc or declared_encoding(converted) or "utf-8"
    return converted.encode(enc)


def is_ignored_path(path):
    """Mirror of the two default ignored_resources patterns the generators use
    ('*~' and '*.pyc'; a pattern matches any path component)."""
    return any(part.endswith("~") or part.endswith(".pyc") for part in path.split("/"))


class TreeModel:
    """path -> DIR | bytes"""

    def __init__(self, files=None):
        self.files = dict(files or {})

    def copy(self):
        return TreeModel(self.files)

    def exists(self, p):
        return p == "" or p in self.files

    def is_dir(self, p):
        return p == "" or self.files.get(p) == DIR

    def is_file(self, p):
        return p in self.files and self.files[p] != DIR

    def dirs(self):
        return [""] + sorted(p for p, v in self.files.items() if v == DIR)

    def file_paths(self):
        return sorted(p for p, v in self.files.items() if v != DIR)

    # -- abstract operations -------------------------------------------------
    def apply(self, op):
        kind = op[0]
        if kind == "edit":
            _, path, text = op[:3]
            if not self.is_file(path):
                raise ModelError("edit of a missing file " + path)
            try:
                # optional 4th element: the newline convention to use when the
                # current contents have no line break (convention undefined)
                nl = op[3] if len(op) > 3 and op[3] else newline_of(self.files[path])
                self.files[path] = encode_text(text, nl)
            except (UnicodeError, LookupError):
                raise ModelError("text not encodable in its declared encoding " + path)
        elif kind == "bytes":
            # contents written verbatim (latin-1 carries the raw bytes through JSON)
            _, path, raw = op[:3]
            if not self.is_file(path):
                raise ModelError("write to a missing file " + path)
            self.files[path] = raw.encode("latin-1")
        elif kind in ("mkdir", "mkfile"):
            path = op[1]
            if self.exists(path):
                raise ModelError("create over existing " + path)
            if not self.is_dir(parent_of(path)):
                raise ModelError("create in a missing parent " + path)
            self.files[path] = DIR if kind == "mkdir" else b""
        elif kind == "move":
            _, src, dst, skind = op[:4]
            if not self.exists(src) or src == "":
                raise ModelError("move of a missing source " + src)
            if (skind == "d") != self.is_dir(src):
                raise ModelError("move source kind mismatch " + src)
            if self.exists(dst):
                raise ModelError("move onto existing " + dst)
            if not self.is_dir(parent_of(dst)):
                raise ModelError("move into a missing parent " + dst)
            if dst == src or is_under(dst, src):
                raise ModelError("move into itself " + dst)
            moved = {}
            for p in list(self.files):
                if p == src or is_under(p, src):
                    moved[dst + p[len(src) :]] = self.files.pop(p)
            self.files.update(moved)
        elif kind == "remove":
            _, path, skind = op[:3]
            if not self.exists(path) or path == "":
                raise ModelError("remove of a missing path " + path)
            if (skind == "d") != self.is_dir(path):
                raise ModelError("remove kind mismatch " + path)
            for p in list(self.files):
                if p == path or is_under(p, path):
                    del self.files[p]
        elif kind == "set":
            for sub in op[2]:
                self.apply(sub)
        else:
            raise ModelError("unknown op " + repr(op))

    def apply_all(self, ops):
        """All-or-nothing application (the property C10 in one line)."""
        saved = dict(self.files)
        try:
            for op in ops:
                self.apply(op)
        except ModelError:
            self.files = saved
            raise


def touched_paths(ops):
    """Paths a change set touches, as the property words it (the resources it
    lists): edited/created/removed path, both ends of a move."""
    out = set()
    for op in ops:
        if op[0] == "move":
            out.add(op[1])
            out.add(op[2])
        elif op[0] == "set":
            out |= touched_paths(op[2])
        else:
            out.add(op[1])
    return out


def paths_conflict(a, b):
    return a == b or is_under(a, b) or is_under(b, a)


def flat_ops(ops):
    for op in ops:
        if op[0] == "set":
            yield from flat_ops(op[2])
        else:
            yield op


class HistoryModel:
    """Base tree + undo list + redo list of abstract change-set records.

    Invariant checked against the real project after every step:
        real tree == replay(base, undo list)

    A change set that touches only ignored resources is performed but not
    recorded by rope ("uninteresting").  The model keeps it as a *ghost*
    record: it takes part in replay at its place in time, but it is invisible
    in `undo` (the list shape), does not count against the limit and cannot be
    undone; if what it needs has been undone meanwhile it silently vanishes
    (ignored files are not under the history's protection).
    """

    def __init__(self, base: TreeModel, limit: int):
        self.base = base.copy()
        self.limit = limit
        self._undo = []  # records: {"id": int, "desc": str, "ops": [...], "ghost"?: True}
        self.redo = []
        self.stale = set()  # ids on the redo list whose prerequisite was dropped

    @property
    def undo(self):
        return [r for r in self._undo if not r.get("ghost")]

    def current(self) -> TreeModel:
        t = self.base.copy()
        for rec in self._undo:
            if rec.get("ghost"):
                try:
                    t.apply_all(rec["ops"])
                except ModelError:
                    pass
            else:
                t.apply_all(rec["ops"])
        return t

    def _fold_first(self):
        rec = self._undo.pop(0)
        try:
            self.base.apply_all(rec["ops"])
        except ModelError:
            if not rec.get("ghost"):
                raise

    def _truncate(self):
        while len(self.undo) > self.limit:
            self._fold_first()
        while self._undo and self._undo[0].get("ghost"):
            self._fold_first()

    def do(self, rec):
        if all(is_ignored_path(p) for p in touched_paths(rec["ops"])):
            # performed but not recorded by rope; ignored files are not
            # modelled at all (tree comparisons leave them out): only effect
            # on the history is that the redo list is cleared
            del self.redo[:]
            return
        self._undo.append(rec)
        self._truncate()
        del self.redo[:]

    @staticmethod
    def closure(lst, index):
        """Dependency closure scanning forward from `index`: a later change
        depends on the chosen one if it touches the same path as (or a path
        inside / containing one touched by) a change already in the closure."""
        result = [lst[index]]
        touched = set(touched_paths(lst[index]["ops"]))
        for rec in lst[index + 1 :]:
            tp = touched_paths(rec["ops"])
            if any(paths_conflict(a, b) for a in tp for b in touched):
                result.append(rec)
                touched |= tp
        return result

    def undo_sel(self, index=None, drop=False):
        vis = self.undo
        if index is None:
            index = len(vis) - 1
        deps = self.closure(vis, index)
        ids = {r["id"] for r in deps}
        self._undo = [r for r in self._undo if r["id"] not in ids]
        if not drop:
            # rope undoes the most recent dependant first
            self.redo.extend(reversed(deps))
        else:
            # changes still on the redo list that were made on top of a dropped
            # change can no longer be redone meaningfully ("stale")
            touched = set()
            for r in deps:
                touched |= touched_paths(r["ops"])
            grew = True
            while grew:
                grew = False
                for r in self.redo:
                    if r["id"] in self.stale:
                        continue
                    tp = touched_paths(r["ops"])
                    if any(paths_conflict(a, b) for a in tp for b in touched):
                        self.stale.add(r["id"])
                        touched |= tp
                        grew = True
        return deps

    def redo_feasible(self, index=None):
        """Whether redoing makes sense on the current tree.  After
        undo(drop=True) the redo list can hold changes whose prerequisite was
        dropped; redoing those is a caller error, not part of the property."""
        saved = (list(self._undo), list(self.redo), self.base.copy())
        try:
            i = len(self.redo) - 1 if index is None else index
            if any(r["id"] in self.stale for r in self.closure(self.redo, i)):
                return False
            self.redo_sel(index)
            self.current()
            return True
        except ModelError:
            return False
        finally:
            self._undo, self.redo, self.base = saved

    def redo_sel(self, index=None):
        if index is None:
            index = len(self.redo) - 1
        deps = self.closure(self.redo, index)
        ids = {r["id"] for r in deps}
        self.redo = [r for r in self.redo if r["id"] not in ids]
        # later entries of the redo list were undone later, i.e. are *older*
        # changes, and are redone first
        self._undo.extend(reversed(deps))
        self._truncate()  # the limit holds after a redo as well
        return deps
