"""Abstract change records -> real rope Change objects, and an independent
structural view of rope's history lists (no use of rope's ChangeToData)."""

from __future__ import annotations

import os


def realize_op(project, op):
    from rope.base import change as rc

    k = op[0]
    if k == "edit":
        return rc.ChangeContents(project.get_file(op[1]), op[2])
    if k == "bytes":
        return rc.ChangeContents(project.get_file(op[1]), op[2].encode("latin-1"))
    if k in ("mkdir", "mkfile"):
        path = op[1]
        parent, _, name = path.rpartition("/")
        pf = project.get_folder(parent)
        return rc.CreateFolder(pf, name) if k == "mkdir" else rc.CreateFile(pf, name)
    if k == "move":
        _, src, dst, skind = op[:4]
        into = op[4] if len(op) > 4 else False
        res = project.get_folder(src) if skind == "d" else project.get_file(src)
        if into:
            parent, _, name = dst.rpartition("/")
            ppath = project._get_resource_path(parent)
            if name == res.name and os.path.isdir(ppath):
                # public, non-exact form: destination is the containing folder
                return rc.MoveResource(res, parent)
        if os.path.isdir(project._get_resource_path(dst)):
            # the destination name is (still) taken by a folder when the change
            # object is built, although it is free by the time this sub-change
            # runs; say exactly what is meant instead of "into that folder"
            return rc.MoveResource(res, dst, exact=True)
        return rc.MoveResource(res, dst)
    if k == "remove":
        _, path, skind = op[:3]
        res = project.get_folder(path) if skind == "d" else project.get_file(path)
        return rc.RemoveResource(res)
    if k == "set":
        cs = rc.ChangeSet(op[1])
        for sub in op[2]:
            cs.add_change(realize_op(project, sub))
        return cs
    raise ValueError("unknown op %r" % (op,))


def realize(project, rec):
    """The composite is built the way a client builds it while showing a
    preview: nested sets are attached when they hold their first sub-change,
    the outer set is asked for its resources in between, and the remaining
    sub-changes are added afterwards."""
    from rope.base import change as rc

    cs = rc.ChangeSet(rec["desc"])
    late = []
    for op in rec["ops"]:
        if op[0] == "set" and len(op[2]) >= 1:
            inner = rc.ChangeSet(op[1])
            inner.add_change(realize_op(project, op[2][0]))
            cs.add_change(inner)
            cs.get_changed_resources()
            late.append((inner, op[2][1:]))
        else:
            cs.add_change(realize_op(project, op))
    for inner, rest in late:
        for sub in rest:
            inner.add_change(realize_op(project, sub))
    return cs


def struct_of(change, nested_time=True, _top=True):
    """Independent structural view of a rope Change (order, description,
    timestamp, nesting, paths, resource kinds, new/old contents).

    nested_time=False leaves out the timestamps of *nested* change sets: an
    inner set restamps itself whenever it is (re)performed, also inside an
    outer composite that is then rolled back; that stamp is not part of what
    "the history is unchanged" means."""
    from rope.base import change as rc

    if isinstance(change, rc.ChangeSet):
        t = change.time if (nested_time or _top) else None
        return ["set", change.description, t, [struct_of(c, nested_time, False) for c in change.changes]]
    if isinstance(change, rc.ChangeContents):
        return ["edit", change.resource.path, _kind(change.resource), _txt(change.new_contents), _txt(change.old_contents)]
    if isinstance(change, rc.MoveResource):
        return [
            "move",
            change.resource.path,
            _kind(change.resource),
            change.new_resource.path,
            _kind(change.new_resource),
        ]
    if isinstance(change, rc.CreateResource):
        return ["create", change.resource.path, _kind(change.resource)]
    if isinstance(change, rc.RemoveResource):
        return ["remove", change.resource.path, _kind(change.resource)]
    return ["other", type(change).__name__]


def _txt(c):
    return ["bytes", c.decode("latin-1")] if isinstance(c, bytes) else c


def _kind(res):
    return "d" if res.is_folder() else "f"


def history_struct(project, nested_time=True):
    h = project.history
    return [
        [struct_of(c, nested_time) for c in h.undo_list],
        [struct_of(c, nested_time) for c in h.redo_list],
    ]


def history_ids(project):
    h = project.history
    return [[id(c) for c in h.undo_list], [id(c) for c in h.redo_list]]


def history_descs(project):
    h = project.history
    return [[c.description for c in h.undo_list], [c.description for c in h.redo_list]]
