"""Batch runner, replay, evidence writing and the command line."""

from __future__ import annotations

import argparse
import collections
import faulthandler
import importlib
import json
import multiprocessing
import os
import subprocess
import sys
import traceback
from concurrent.futures import ProcessPoolExecutor, as_completed

from . import kernel

ENGINES = {
    "C10": "ropesim.engines.atomic",
    "C11": "ropesim.engines.history",
    "C12": "ropesim.engines.reopen",
    "C18": "ropesim.engines.crashsave",
    "C16": "ropesim.engines.bytestore",
    "C13": "ropesim.engines.coherence",
    "C09": "ropesim.engines.effects",
}

RUN_TIMEOUT_S = int(os.environ.get("VERIF_RUN_TIMEOUT", "600"))


def load_engine(prop):
    if prop not in ENGINES:
        raise kernel.HarnessError("no engine for " + prop)
    return importlib.import_module(ENGINES[prop]).ENGINE


# ---------------------------------------------------------------------------
# worker side


def _worker_chunk(prop, seed, indices, minimise):
    """Runs in a forked worker.  Returns a list of packed outcomes (trace only
    kept for violating runs and for one sample)."""
    eng = load_engine(prop)
    findings = kernel.load_known_findings()
    res = []
    for r in indices:
        faulthandler.dump_traceback_later(RUN_TIMEOUT_S, exit=True)
        try:
            run_seed = kernel.derive_seed(seed, prop, r)
            try:
                out = eng.run(run_seed)
            except Exception:
                res.append({"run": r, "run_seed": run_seed, "harness_error": traceback.format_exc()})
                continue
            packed = out.pack()
            if os.environ.get("VERIF_DUMP_LOG") and packed.get("log_lines") is not None:
                with open(os.path.join(os.environ["VERIF_DUMP_LOG"], "%s-run%d-pid%d.log" % (prop, r, os.getpid())), "w") as f:
                    f.write("\n".join(packed["log_lines"]))
            packed["log_lines"] = None
            packed["run"] = r
            packed["run_seed"] = run_seed
            unknown = []
            known = []
            for v in packed["violations"]:
                e = kernel.match_known(prop, v["signature"], findings)
                if e is None:
                    unknown.append(v)
                else:
                    known.append((e["id"], v))
            packed["known"] = [(k, {"signature": v["signature"], "where": v.get("where")}) for k, v in known[:50]]
            packed["known_counts"] = dict(collections.Counter(k for k, _ in known))
            packed["violations"] = unknown
            if not unknown and not (r % 97 == 0):
                packed["trace"] = None  # keep IPC small
            res.append(packed)
        finally:
            faulthandler.cancel_dump_traceback_later()
    return res


def _worker_minimise(prop, packed):
    """Minimise the first unknown violation of a violating run (forked worker)."""
    eng = load_engine(prop)
    findings = kernel.load_known_findings()
    faulthandler.dump_traceback_later(RUN_TIMEOUT_S * 3, exit=True)
    try:
        v = packed["violations"][0]
        kw = {"where": v.get("where")} if "where" in eng.minimise.__code__.co_varnames else {}
        if "sig" in eng.minimise.__code__.co_varnames:
            kw["sig"] = v.get("signature")
        small, spent = eng.minimise(packed["trace"], v["class"], **kw)
        o2 = eng.replay(small)
        vs = [
            x for x in o2.violations
            if x["class"] == v["class"] and kernel.match_known(prop, x["signature"], findings) is None
        ]
        if vs:
            return {"min_trace": small, "min_violation": vs[0], "min_digest": o2.log.digest(), "min_spent": spent}
        return {"min_error": "minimised trace lost the violation"}
    except Exception:
        return {"min_error": traceback.format_exc()}
    finally:
        faulthandler.cancel_dump_traceback_later()


# ---------------------------------------------------------------------------
# parent side


def run_batch(prop, tier, seed, procs=None, runs=None, wall=None, minimise=True, quiet=False, evidence=True):
    eng = load_engine(prop)
    cfg = dict(eng.tiers[tier])
    if runs is not None:
        cfg["runs"] = runs
    if wall is not None:
        cfg["wall"] = wall
    procs = procs or int(os.environ.get("VERIF_PROCS", "0")) or min(16, os.cpu_count() or 4)
    kernel.sweep_stale_scratch()
    _clear_old_replays(prop, seed)
    t0 = kernel.wall()
    n = cfg["runs"]
    chunk = max(1, min(8, n // (procs * 4) or 1))
    chunks = [list(range(i, min(n, i + chunk))) for i in range(0, n, chunk)]
    agg = {
        "runs": 0, "evals": 0, "events": 0, "stats": collections.Counter(), "sigs": set(), "states": set(),
        "schedules": set(), "violations": [], "known": collections.Counter(), "known_examples": {},
        "harness_errors": [], "sim_s": 0.0, "samples": [], "digests": {}, "budget_hit": False,
    }
    ctx = multiprocessing.get_context("fork")
    pool = ProcessPoolExecutor(max_workers=procs, mp_context=ctx)
    futs = {}
    try:
        for ch in chunks:
            futs[pool.submit(_worker_chunk, prop, seed, ch, minimise)] = ch
        pending = set(futs)
        for fut in as_completed(futs):
            pending.discard(fut)
            try:
                res = fut.result()
            except Exception as e:  # a dead worker: harness trouble, never exit 0
                agg["harness_errors"].append("worker failed: %r" % (e,))
                break
            for p in res:
                _merge(agg, p)
            if cfg.get("wall") and kernel.wall() - t0 > cfg["wall"] and pending:
                agg["budget_hit"] = True
                for f in pending:
                    f.cancel()
                break
        # minimise the first few distinct violations (chosen in run order, so
        # the choice does not depend on worker timing)
        if minimise and agg["violations"] and not agg["harness_errors"]:
            agg["violations"].sort(key=lambda p: p["run"])
            chosen, seen = [], set()
            for p in agg["violations"]:
                key = kernel.short_hash(p["violations"][0]["signature"])
                if key not in seen:
                    seen.add(key)
                    chosen.append(p)
                if len(chosen) >= 4:
                    break
            mf = {pool.submit(_worker_minimise, prop, p): p for p in chosen}
            for fut in as_completed(mf):
                try:
                    mf[fut].update(fut.result())
                except Exception as e:
                    agg["harness_errors"].append("minimiser worker failed: %r" % (e,))
    finally:
        pool.shutdown(wait=True, cancel_futures=True)
    wall_s = kernel.wall() - t0

    findings = kernel.load_known_findings()
    rc = 0
    lines = []
    # known findings: one line per listed finding that was hit
    for fid in sorted(agg["known"]):
        e = next((x for x in findings if x["id"] == fid), None)
        lines.append("KNOWN-FINDING: property=%s %s [%s; hit %d times]" % (prop, e["what"] if e else fid, fid, agg["known"][fid]))
    # violations: write replay files, verify they replay in a fresh interpreter
    reported = []
    if agg["violations"]:
        os.makedirs(os.path.join(kernel.VERIF_DIR, "replays"), exist_ok=True)
        agg["violations"].sort(key=lambda p: p["run"])
        seen_classes = set()
        for p in agg["violations"]:
            v = p.get("min_violation") or p["violations"][0]
            key = kernel.short_hash(v["signature"])
            if key in seen_classes:
                continue
            seen_classes.add(key)
            if len(reported) >= 5:
                break
            path = os.path.join(kernel.VERIF_DIR, "replays", "%s-seed%d-run%d.json" % (prop, seed, p["run"]))
            trace = p.get("min_trace") or p["trace"]
            rep = {
                "property": prop, "engine": eng.name, "verif_seed": seed, "run_index": p["run"],
                "run_seed": p["run_seed"], "minimised": "min_trace" in p, "trace": trace,
                "violation": v, "digest": p.get("min_digest") or p["digest"],
            }
            with open(path, "w") as f:
                json.dump(rep, f, indent=1, default=kernel._json_default)
            ok, msg = verify_replay(prop, path)
            if ok:
                lines.append("VIOLATION property=%s replay=%s" % (prop, path))
                lines.append("  class=%s detail=%s" % (v["class"], kernel.canon(v["detail"])[:600]))
                reported.append(path)
                rc = 1
            else:
                agg["harness_errors"].append("violation in run %d did not replay: %s" % (p["run"], msg))
    if agg["harness_errors"]:
        for h in agg["harness_errors"][:5]:
            lines.append("HARNESS-ERROR: " + h.strip().splitlines()[-1][:300])
        if not quiet:
            sys.stderr.write("\n".join(agg["harness_errors"][:3]) + "\n")
        if rc == 0:
            rc = 2
    ev = None
    if evidence:
        ev = write_evidence(eng, prop, tier, seed, agg, wall_s, len(reported), procs, cfg)
    if not quiet:
        for l in lines:
            print(l)
        print(
            "%s %s tier=%s seed=%d runs=%d evals=%d distinct_nontrivial=%d states=%d wall=%.1fs %s"
            % (
                "PASS" if rc == 0 else ("FAIL" if rc == 1 else "ERROR"), prop, tier, seed, agg["runs"], agg["evals"],
                len(agg["sigs"]), len(agg["states"]), wall_s, "(wall budget reached)" if agg["budget_hit"] else "",
            )
        )
    return rc, agg, ev


def _clear_old_replays(prop, seed):
    d = os.path.join(kernel.VERIF_DIR, "replays")
    if os.path.isdir(d):
        for n in os.listdir(d):
            if n.startswith("%s-seed%d-" % (prop, seed)):
                os.unlink(os.path.join(d, n))


def _merge(agg, p):
    if "harness_error" in p:
        agg["harness_errors"].append("run %d: %s" % (p["run"], p["harness_error"]))
        return
    agg["runs"] += 1
    agg["evals"] += p["evals"]
    agg["events"] += p["events"]
    agg["stats"].update(p["stats"])
    agg["sigs"] |= p["sigs"]
    agg["states"] |= p["states"]
    agg["schedules"] |= p["schedules"]
    agg["sim_s"] += p["sim_s"]
    agg["digests"][p["run"]] = p["digest"]
    for fid, c in p.get("known_counts", {}).items():
        agg["known"][fid] += c
    for fid, ex in p.get("known", []):
        agg["known_examples"].setdefault(fid, ex)
    for v in p["violations"]:
        key = kernel.canon(v["signature"])
        ent = agg.setdefault("sig_counts", {}).setdefault(key, [0, p["run"]])
        ent[0] += 1
    if p["violations"]:
        agg["violations"].append(p)
    if p.get("min_error"):
        agg["harness_errors"].append("minimiser: " + p["min_error"])
    if p.get("sample") is not None and len(agg["samples"]) < 4:
        agg["samples"].append(p["sample"])


def verify_replay(prop, path):
    cmd = [sys.executable, os.path.join(kernel.VERIF_DIR, "check"), prop, "--replay", path, "--quiet"]
    try:
        r = subprocess.run(cmd, capture_output=True, text=True, timeout=900)
    except subprocess.TimeoutExpired:
        return False, "replay timed out"
    if r.returncode == 1 and "REPLAY-REPRODUCED" in r.stdout:
        return True, ""
    return False, (r.stdout + r.stderr)[-400:]


def do_replay(prop, path, quiet=False):
    eng = load_engine(prop)
    with open(path) as f:
        rep = json.load(f)
    out = eng.replay(rep["trace"])
    want = rep["violation"]["class"]
    findings = kernel.load_known_findings()
    got = [v for v in out.violations if kernel.match_known(prop, v["signature"], findings) is None]
    same = [v for v in got if v["class"] == want]
    dig = out.log.digest()
    if same and dig == rep.get("digest"):
        print("REPLAY-REPRODUCED property=%s class=%s digest=%s" % (prop, want, dig))
        if not quiet:
            print(json.dumps(same[0]["detail"], indent=1, default=kernel._json_default)[:3000])
        return 1
    if same:
        print("REPLAY-DIGEST-MISMATCH property=%s class=%s digest=%s recorded=%s" % (prop, want, dig, rep.get("digest")))
        return 3
    print("REPLAY-NOT-REPRODUCED property=%s (wanted %s, got %s)" % (prop, want, [v["class"] for v in got]))
    return 0


# ---------------------------------------------------------------------------
# evidence


def write_evidence(eng, prop, tier, seed, agg, wall_s, violations, procs, cfg):
    st = agg["stats"]
    faults_fired = {k[len("fired_"):]: v for k, v in st.items() if k.startswith("fired_") and not k.startswith("fired_with")}
    faults_cfg = {k[len("exec_"):]: v for k, v in st.items() if k.startswith("exec_")}
    probes = {k[len("probe_"):]: v for k, v in st.items() if k.startswith("probe_")}
    cov = {
        "evaluations": agg["evals"],
        "distinct_nontrivial": len(agg["sigs"]),
        "rule": eng.rule,
        "samples": agg["samples"] or [{"note": "no sample recorded"}],
        "exhaustive": False,
        "runs": agg["runs"],
        "runs_requested": cfg["runs"],
        "wall_budget_reached": agg["budget_hit"],
        "runs_per_hour": int(agg["runs"] / wall_s * 3600) if wall_s > 0 else 0,
        "evaluations_per_hour": int(agg["evals"] / wall_s * 3600) if wall_s > 0 else 0,
        "sim_time_covered_s": round(agg["sim_s"], 3),
        "faults_injected_executions": faults_cfg,
        "faults_fired": faults_fired,
        "distinct_states": len(agg["states"]),
        "distinct_schedules": len(agg["schedules"]),
        "events_logged": agg["events"],
        "probes": probes,
        "counters": {k: v for k, v in sorted(st.items())},
        "components_real": eng.components_real,
        "components_stub": eng.components_stub,
        "known_findings_hit": dict(agg["known"]),
        "known_finding_examples": agg["known_examples"],
        "worker_processes": procs,
        "batch_digest": kernel.short_hash(sorted(agg["digests"].items())),
        "pythonhashseed": os.environ.get("PYTHONHASHSEED"),
        "repo": kernel.REPO,
    }
    ev = {
        "property_id": prop,
        "tier": tier,
        "seed": seed,
        "level": eng.level,
        "coverage": cov,
        "assumptions": eng.assumptions,
        "wall_s": round(wall_s, 2),
        "violations": violations,
    }
    d = os.path.join(kernel.VERIF_DIR, "evidence")
    os.makedirs(d, exist_ok=True)
    tmp = os.path.join(d, ".%s.json.tmp" % prop)
    with open(tmp, "w") as f:
        json.dump(ev, f, indent=1, default=kernel._json_default, sort_keys=True)
    os.replace(tmp, os.path.join(d, "%s.json" % prop))
    return ev


# ---------------------------------------------------------------------------
# command line


def main(argv=None):
    ap = argparse.ArgumentParser(prog="check")
    ap.add_argument("prop")
    ap.add_argument("--tier", default=os.environ.get("VERIF_TIER", "quick"), choices=["quick", "thorough"])
    ap.add_argument("--seed", type=int, default=int(os.environ.get("VERIF_SEED", "0") or 0))
    ap.add_argument("--procs", type=int, default=None)
    ap.add_argument("--runs", type=int, default=None)
    ap.add_argument("--wall", type=float, default=None)
    ap.add_argument("--replay", default=None)
    ap.add_argument("--one", type=int, default=None, help="execute a single run index in-process and print its outcome")
    ap.add_argument("--digests", action="store_true", help="print run-index:digest lines (determinism self-test)")
    ap.add_argument("--roundtrip", type=int, default=None,
                    help="self-test: execute the first N runs and replay each recorded trace from its JSON text; digests must agree")
    ap.add_argument("--no-minimise", action="store_true")
    ap.add_argument("--signatures", action="store_true", help="list every distinct unknown violation signature with counts")
    ap.add_argument("--no-evidence", action="store_true")
    ap.add_argument("--quiet", action="store_true")
    ap.add_argument("--mode", default="determinism", choices=["determinism", "sensitivity", "all"], help="selftest mode")
    ap.add_argument("--props", default=None, help="selftest: comma-separated property ids")
    ap.add_argument("--only", default=None, help="selftest sensitivity: comma-separated seeded ids")
    a = ap.parse_args(argv)
    kernel.ensure_env()
    if a.prop == "selftest":
        from . import selftest

        return selftest.main(a)
    if a.replay:
        return do_replay(a.prop, a.replay, a.quiet)
    if a.roundtrip is not None:
        eng = load_engine(a.prop)
        bad = 0
        for r in range(a.roundtrip):
            out = eng.run(kernel.derive_seed(a.seed, a.prop, r))
            if out.trace is None:
                continue
            o2 = eng.replay(json.loads(json.dumps(out.trace, default=kernel._json_default)))
            if o2.log.digest() != out.log.digest():
                bad += 1
                print("ROUNDTRIP-MISMATCH property=%s run=%d %s != %s" % (a.prop, r, out.log.digest(), o2.log.digest()))
        print("ROUNDTRIP %s: %d runs, %d mismatches" % (a.prop, a.roundtrip, bad))
        return 2 if bad else 0
    if a.one is not None:
        eng = load_engine(a.prop)
        out = eng.run(kernel.derive_seed(a.seed, a.prop, a.one))
        p = out.pack()
        for k in ("sigs", "states", "schedules"):
            p[k] = len(p[k])
        print(json.dumps(p, indent=1, default=kernel._json_default)[:20000])
        return 1 if out.violations else 0
    rc, agg, ev = run_batch(
        a.prop, a.tier, a.seed, a.procs, a.runs, a.wall, minimise=not a.no_minimise, quiet=a.quiet,
        evidence=not a.no_evidence,
    )
    if a.signatures:
        for key, (cnt, run) in sorted(agg.get("sig_counts", {}).items(), key=lambda kv: -kv[1][0]):
            print("SIGNATURE count=%d first_run=%d %s" % (cnt, run, key))
    if a.digests:
        for r in sorted(agg["digests"]):
            print("DIGEST %d %s" % (r, agg["digests"][r]))
    return rc
