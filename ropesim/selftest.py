"""Self-tests of the simulator itself.

determinism : the same VERIF_SEED twice, in fresh interpreters, at different
              worker counts and under different PYTHONHASHSEED values, must give
              identical per-run digests (event logs) and verdicts.
sensitivity : every seeded change under /verif/seeded/<id>/patch.diff, applied
              to a scratch copy of /repo, must make the named property's check
              report a VIOLATION (and the unchanged tree must pass).
"""

from __future__ import annotations

import json
import os
import shutil
import subprocess
import sys

from . import kernel


def _digests(prop, runs, seed, procs, hashseed, repo=None, tier="quick"):
    env = dict(os.environ)
    env["VERIF_HASHSEED"] = str(hashseed)
    env["PYTHONHASHSEED"] = "random"  # force the re-exec path
    if repo:
        env["VERIF_REPO"] = repo
    cmd = [
        sys.executable, os.path.join(kernel.VERIF_DIR, "check"), prop, "--runs", str(runs), "--seed", str(seed),
        "--procs", str(procs), "--digests", "--no-evidence", "--no-minimise", "--tier", tier,
    ]
    r = subprocess.run(cmd, capture_output=True, text=True, env=env, timeout=3600)
    d = {}
    for line in r.stdout.splitlines():
        if line.startswith("DIGEST "):
            _, idx, dg = line.split()
            d[int(idx)] = dg
    return r.returncode, d, r.stdout[-2000:] + r.stderr[-2000:]


def determinism(props, runs, seed):
    """Same seed, fresh interpreters: identical per-run digests at different
    worker counts under each PYTHONHASHSEED; identical verdict across hash
    seeds (digests may legitimately differ across hash seeds: rope iterates
    sets of resources, e.g. when a refactoring collects the files to change, so
    another string-hash seed is another -- equally valid -- execution)."""
    ok = True
    for prop in props:
        rcs = {}
        for hs, (p1, p2) in ((0, (16, 3)), (1, (7, 16)), (2, (16, 5))):
            rc1, d1, out1 = _digests(prop, runs, seed, p1, hs)
            rc2, d2, out2 = _digests(prop, runs, seed, p2, hs)
            rcs[hs] = rc1
            if len(d1) != runs or len(d2) != runs:
                print("SELFTEST determinism %s: missing digests (hashseed %d: %d/%d of %d, rc=%d/%d)\n%s" % (
                    prop, hs, len(d1), len(d2), runs, rc1, rc2, out1[-600:]))
                ok = False
                continue
            diff = [i for i in d1 if d2.get(i) != d1[i]]
            if rc1 != rc2 or diff:
                ok = False
                print("SELFTEST determinism %s FAILED: hashseed=%d procs=%d vs %d: rc=%d/%d, %d of %d digests differ (first runs: %s)"
                      % (prop, hs, p1, p2, rc1, rc2, len(diff), runs, diff[:8]))
            else:
                print("SELFTEST determinism %s ok: hashseed=%d, procs=%d vs %d, %d digests identical" % (prop, hs, p1, p2, runs))
        if len(set(rcs.values())) > 1:
            ok = False
            print("SELFTEST determinism %s FAILED: verdict depends on PYTHONHASHSEED: %s" % (prop, rcs))
        # a run and the replay of its recorded trace (from the JSON text) are the same execution
        n = max(3, min(runs, 40) if prop != "C18" else 3)
        r = subprocess.run([sys.executable, os.path.join(kernel.VERIF_DIR, "check"), prop, "--roundtrip", str(n), "--seed", str(seed)],
                           capture_output=True, text=True, timeout=3600)
        last = (r.stdout.strip().splitlines() or ["(no output)"])[-1]
        if r.returncode != 0:
            ok = False
            print("SELFTEST determinism %s FAILED: %s\n%s" % (prop, last, r.stdout[-600:] + r.stderr[-400:]))
        else:
            print("SELFTEST determinism %s ok: %s" % (prop, last))
    return ok


def scratch_repo(patch=None):
    d = os.path.join(kernel.SHM, "ropesim-mutant-%d" % os.getpid())
    shutil.rmtree(d, ignore_errors=True)
    os.makedirs(d)
    subprocess.run(["rsync", "-a", "--exclude", ".git", "--exclude", "__pycache__", "--exclude", "docs",
                    "--exclude", "ropetest", kernel.REPO + "/rope", d + "/"], check=True)
    if patch:
        r = subprocess.run(["patch", "-p1", "-d", d, "-i", patch, "--no-backup-if-mismatch", "-s"], capture_output=True, text=True)
        if r.returncode != 0:
            shutil.rmtree(d, ignore_errors=True)
            return None, r.stdout + r.stderr
    return d, ""


def sensitivity(only=None, tier="quick"):
    root = os.path.join(kernel.VERIF_DIR, "seeded")
    ok = True
    rows = []
    for name in sorted(os.listdir(root)) if os.path.isdir(root) else []:
        meta_p = os.path.join(root, name, "meta.json")
        patch = os.path.join(root, name, "patch.diff")
        if not (os.path.exists(meta_p) and os.path.exists(patch)):
            continue
        if only and name not in only:
            continue
        meta = json.load(open(meta_p))
        if meta.get("expect") == "neutralised":
            print("SELFTEST sensitivity %s: skipped (neutralised: %s)" % (name, meta.get("neutralised", "")[:120]))
            continue
        d, err = scratch_repo(patch)
        if d is None:
            print("SELFTEST sensitivity %s: patch does not apply: %s" % (name, err[:300]))
            rows.append((name, "patch-failed"))
            ok = False
            continue
        try:
            caught_by = []
            for prop in meta.get("checks", [meta["property"]]):
                env = dict(os.environ, VERIF_REPO=d)
                cmd = [sys.executable, os.path.join(kernel.VERIF_DIR, "check"), prop, "--tier", tier, "--no-evidence"]
                r = subprocess.run(cmd, capture_output=True, text=True, env=env, timeout=7200)
                if r.returncode == 1 and "VIOLATION property=%s" % prop in r.stdout:
                    caught_by.append(prop)
            want = meta.get("expect", "caught")
            status = "caught" if caught_by else "missed"
            rows.append((name, status + (":" + ",".join(caught_by) if caught_by else "")))
            print("SELFTEST sensitivity %s: %s (expected %s)" % (name, rows[-1][1], want))
            if status != want:
                ok = False
        finally:
            shutil.rmtree(d, ignore_errors=True)
    return ok


def main(a):
    props = a.props.split(",") if getattr(a, "props", None) else list(_claimed())
    ok = True
    if a.mode in ("determinism", "all"):
        ok &= determinism(props, a.runs or 200, a.seed)
    if a.mode in ("sensitivity", "all"):
        ok &= sensitivity(a.only.split(",") if a.only else None, a.tier)
    print("SELFTEST %s" % ("PASS" if ok else "FAIL"))
    return 0 if ok else 1


def _claimed():
    with open(os.path.join(kernel.VERIF_DIR, "MANIFEST.json")) as f:
        m = json.load(f)
    return [c["property_id"] for c in m["checks"]]
