"""Seams: SimFS (an `fscommands` object with fault points) and TaskStopper
(the stopping "thread", scheduled from task-handle notifications)."""

from __future__ import annotations

import errno
import os
import sys

MUTATING = ("create_file", "create_folder", "move", "remove", "write")

ERRNOS = {"EIO": errno.EIO, "ENOSPC": errno.ENOSPC, "EACCES": errno.EACCES, "ENOENT": errno.ENOENT,
          "EEXIST": errno.EEXIST, "EPERM": errno.EPERM, "ESTALE": errno.ESTALE}


class InjectedFault(OSError):
    """What the simulated disk raises.  An OSError, like the real thing."""


class SimFS:
    """`Project(fscommands=SimFS(...))`.

    Delegates to rope's own plain FileSystemCommands on a real (tmpfs)
    directory, counts and logs every call, stamps simulated mtimes, and raises
    an injected error at the armed call.

    fault = {"kind": "before"|"after"|"torn"|"read", "k": int, "errno": str, "cut": int}
       before: the k-th mutating call raises without any effect
       after : the k-th mutating call takes effect, then raises
       torn  : the k-th mutating call, if a write, truncates the file, stores
               data[:cut*len//4], then raises; otherwise behaves like `before`
       read  : the k-th read call raises
    """

    def __init__(self, root, clock=None, stamp=False):
        import rope.base.fscommands as fsc

        self.real = fsc.FileSystemCommands()
        self.root = os.path.realpath(root)
        self.clock = clock
        self.stamp = stamp
        self.log = []  # forward calls: (op, relpath[, relpath2])
        self.rollback_log = []  # calls made while an exception is being handled
        self.mut_count = 0
        self.read_count = 0
        self.fault = None
        self.fired = None  # description of the fault that fired
        self.counting = True

    # -- control -----------------------------------------------------------
    def arm(self, fault):
        self.fault = dict(fault) if fault else None
        self.fired = None
        self.mut_count = 0
        self.read_count = 0
        del self.log[:]
        del self.rollback_log[:]

    def disarm(self):
        self.fault = None

    def rel(self, path):
        path = os.path.realpath(path) if os.path.isabs(path) else path
        if path == self.root:
            return ""
        if path.startswith(self.root + os.sep):
            return path[len(self.root) + 1 :].replace(os.sep, "/")
        return "<outside>/" + os.path.basename(path)

    def _enter(self, op, *paths):
        rec = (op,) + tuple(self.rel(p) for p in paths)
        if sys.exc_info()[0] is not None:
            # called from inside an exception handler: this is rope's rollback
            # loop.  Faults inside the rollback itself are outside the fault
            # model (one fault per call), so such calls are logged, not counted.
            self.rollback_log.append(rec)
            return None
        self.mut_count += 1
        self.log.append(rec)
        f = self.fault
        if f and f["k"] == self.mut_count and f["kind"] in ("before", "after", "torn"):
            return f
        return None

    def _raise(self, f, op, rec):
        self.fired = {"kind": f["kind"], "k": f["k"], "op": op}
        self.fault = None
        # OSError(code, ...) yields the subclass the real call would raise (FileNotFoundError for
        # ENOENT - e.g. a stale handle or a racing deletion -, PermissionError, FileExistsError, ...)
        raise OSError(ERRNOS.get(f.get("errno", "EIO"), errno.EIO), "injected fault (%s %s)" % (f["kind"], op))

    def _stamp(self, *paths):
        if self.stamp and self.clock is not None:
            for p in paths:
                for q in (p, os.path.dirname(p)):
                    try:
                        os.utime(q, ns=(self.clock.ns, self.clock.ns))
                    except OSError:
                        pass

    # -- the fscommands interface ------------------------------------------
    def create_file(self, path):
        f = self._enter("create_file", path)
        if f and f["kind"] in ("before", "torn"):
            self._raise(f, "create_file", None)
        self.real.create_file(path)
        self._stamp(path)
        if f:
            self._raise(f, "create_file", None)

    def create_folder(self, path):
        f = self._enter("create_folder", path)
        if f and f["kind"] in ("before", "torn"):
            self._raise(f, "create_folder", None)
        self.real.create_folder(path)
        self._stamp(path)
        if f:
            self._raise(f, "create_folder", None)

    def move(self, path, new_location):
        f = self._enter("move", path, new_location)
        if f and f["kind"] in ("before", "torn"):
            self._raise(f, "move", None)
        self.real.move(path, new_location)
        self._stamp(new_location)
        self._stamp(os.path.dirname(path))
        if f:
            self._raise(f, "move", None)

    def remove(self, path):
        f = self._enter("remove", path)
        if f and f["kind"] in ("before", "torn"):
            self._raise(f, "remove", None)
        self.real.remove(path)
        self._stamp(os.path.dirname(path))
        if f:
            self._raise(f, "remove", None)

    def write(self, path, data):
        f = self._enter("write", path)
        if f and f["kind"] == "before":
            self._raise(f, "write", None)
        if f and f["kind"] == "torn":
            cut = (len(data) * f.get("cut", 2)) // 4
            with open(path, "wb") as fh:  # truncates, like the real write
                fh.write(data[:cut])
            self._stamp(path)
            self._raise(f, "write", None)
        self.real.write(path, data)
        self._stamp(path)
        if f:
            self._raise(f, "write", None)

    def read(self, path):
        if sys.exc_info()[0] is not None:
            return self.real.read(path)
        self.read_count += 1
        f = self.fault
        if f and f["kind"] == "read" and f["k"] == self.read_count:
            rp = self.rel(path)
            self.fired = {
                "kind": "read", "k": f["k"], "op": "read", "path": rp,
                # the read comes from an observer reacting to a mutation of the
                # same path that has just been applied (e.g. automatic SOA)
                "after_apply": bool(self.log) and rp in self.log[-1][1:] and self.log[-1][0] in ("write", "move"),
            }
            self.fault = None
            raise InjectedFault(errno.EIO, "injected fault (read)")
        return self.real.read(path)


class TaskStopper:
    """The other thread that calls TaskHandle.stop().

    Its timing resolution is the set of status checks, so it is scheduled from
    the task-handle observer callback, which rope fires from create_jobset,
    started_job (after its check) and finished_job (after its check).
    `stop_at=m` flips the flag inside the m-th notification (0-based);
    `stop_at=-1` flips it before the call starts."""

    def __init__(self, stop_at=None):
        from rope.base import taskhandle

        self.handle = taskhandle.TaskHandle("sim")
        self.stop_at = stop_at
        self.notifications = 0
        self.fired = False
        self._in = False
        self.handle.add_observer(self._notified)
        if stop_at == -1:
            self._fire()

    def _fire(self):
        self.fired = True
        self._in = True
        try:
            self.handle.stop()
        finally:
            self._in = False

    def _notified(self):
        if self._in:
            return
        n = self.notifications
        self.notifications += 1
        # ... and it is a progress display: it reads what every job set reports
        for js in self.handle.get_jobsets():
            js.get_name()
            js.get_active_job_name()
            js.get_percent_done()
        if self.stop_at is not None and n == self.stop_at and not self.fired:
            self._fire()
