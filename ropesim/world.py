"""A real rope project on a scratch tree plus the reference model, and the
step interpreter for history workloads (shared by C11, C12, C16, C18)."""

from __future__ import annotations

import os
import re

from . import gen, kernel, realize, simfs
from .model import HistoryModel, ModelError, TreeModel, flat_ops, is_ignored_path, touched_paths


class World:
    def __init__(self, init, limit=100, ropefolder=None, prefs=None, tag="w", clock=None, root=None, stamp=False, lib=None, fixed_key=None):
        import rope.base.change as rc

        # (where absolute paths end up in saved data the path must be a function of the run)
        self.fixed = bool(fixed_key)
        self.dir = kernel.fixed_scratch(fixed_key) if fixed_key else kernel.new_scratch(tag)
        self.root = root or os.path.join(self.dir, "proj")
        kernel.write_tree(self.root, init)
        self.clock = clock or kernel.SimClock()
        self._rc = rc
        self.ropefolder = ropefolder
        self.prefs = dict(prefs or {})
        if lib:
            # a library outside the project, on python_path, in a sibling folder whose
            # path starts with the project's own (<base>/proj and <base>/proj_lib)
            self.lib = self.root + "_lib"
            os.makedirs(self.lib)
            for name, text in lib.items():
                with open(os.path.join(self.lib, name), "w", encoding="utf-8", newline="") as f:
                    f.write(text)
            self.prefs["python_path"] = [self.lib]
        self.prefs.setdefault("max_history_items", limit)
        self.fs = simfs.SimFS(self.root, self.clock, stamp=stamp)
        self.project = None
        self.opens = 0
        self.open()

    def open(self):
        from rope.base.project import Project

        self._rc.time = kernel.TimeShim(self.clock)
        kernel.reset_rope_globals()
        import warnings

        with warnings.catch_warnings():
            warnings.simplefilter("ignore", DeprecationWarning)
            self.project = Project(self.root, fscommands=self.fs, ropefolder=self.ropefolder, **self.prefs)
        self.opens += 1
        return self.project

    def use(self):
        """Make this world's clock the one rope's change module reads."""
        self._rc.time = kernel.TimeShim(self.clock)

    def snapshot(self, with_ropefolder=False):
        snap = kernel.snapshot(self.root)
        if not with_ropefolder and self.ropefolder:
            snap = {k: v for k, v in snap.items() if k != self.ropefolder and not k.startswith(self.ropefolder + "/")}
        return snap

    def destroy(self):
        if self.fixed and "ropesim-fixed" in self.dir:
            kernel.drop_fixed(self.dir)
        else:
            kernel.drop_scratch(self.dir)


def abstract_of(change):
    """Real rope change -> abstract op list (for the model)."""
    from rope.base import change as rc

    if isinstance(change, rc.ChangeSet):
        return [abstract_op(c) for c in change.changes]
    return [abstract_op(change)]


def abstract_op(c):
    from rope.base import change as rc

    if isinstance(c, rc.ChangeSet):
        return ["set", c.description, [abstract_op(x) for x in c.changes]]
    if isinstance(c, rc.ChangeContents):
        if isinstance(c.new_contents, bytes):
            return ["bytes", c.resource.path, c.new_contents.decode("latin-1")]
        return ["edit", c.resource.path, c.new_contents]
    if isinstance(c, rc.MoveResource):
        return ["move", c.resource.path, c.new_resource.path, "d" if c.resource.is_folder() else "f", False]
    if isinstance(c, rc.CreateResource):
        return ["mkdir" if c.resource.is_folder() else "mkfile", c.resource.path]
    if isinstance(c, rc.RemoveResource):
        return ["remove", c.resource.path, "d" if c.resource.is_folder() else "f"]
    raise kernel.HarnessError("unknown change type %r" % (c,))


def find_ident_offsets(text, ident):
    return [m.start() for m in re.finditer(r"\b%s\b" % re.escape(ident), text)]


def compute_refactoring(project, st):
    """A real refactoring's change set for step `st`, or None if rope refuses
    or there is nothing to do.  Pure with respect to the tree (C09 checks that)."""
    from rope.base import exceptions
    from rope.refactor import rename

    try:
        res = project.get_resource(st["path"])
    except exceptions.ResourceNotFoundError:
        return None
    try:
        if st["kind"] == "rename":
            text = res.read()
            offs = find_ident_offsets(text, st["ident"])
            if not offs:
                return None
            off = offs[st["occ"] % len(offs)]
            ren = rename.Rename(project, res, off)
            return ren.get_changes(st["new"], docs=st.get("docs", False))
        if st["kind"] == "rename_module":
            ren = rename.Rename(project, res, None)
            return ren.get_changes(st["new"])
        if st["kind"] == "move_module":
            from rope.refactor import move

            dest = project.get_resource(st["dest"])
            if not dest.is_folder() or not dest.has_child("__init__.py") or dest.has_child(res.name):
                return None
            return move.create_move(project, res).get_changes(dest)
        if st["kind"] == "move_global":
            from rope.refactor import move

            m = re.search(r"^(?:def|class)\s+(%s)\b" % re.escape(st["ident"]), res.read(), re.M)
            dest = project.get_resource(st["dest"])
            if m is None or dest.is_folder() or dest == res:
                return None
            mover = move.create_move(project, res, m.start(1))
            if not isinstance(mover, move.MoveGlobal):
                return None
            return mover.get_changes(dest)
        if st["kind"] == "organize":
            from rope.refactor.importutils import ImportOrganizer

            if res.is_folder():
                return None
            return getattr(ImportOrganizer(project), st.get("action", "organize_imports"))(res)
        if st["kind"] in ("extract_variable", "extract_method"):
            from rope.refactor import extract

            text = res.read()
            at = text.find(st["fragment"])
            if at < 0:
                return None
            cls = extract.ExtractVariable if st["kind"] == "extract_variable" else extract.ExtractMethod
            return cls(project, res, at, at + len(st["fragment"])).get_changes(st["new"])
        if st["kind"] == "inline":
            from rope.refactor import inline

            offs = find_ident_offsets(res.read(), st["ident"])
            if not offs:
                return None
            return inline.create_inline(project, res, offs[st.get("occ", 0) % len(offs)]).get_changes()
        if st["kind"] == "change_signature":
            from rope.refactor import change_signature as csig

            m = re.search(r"^\s*def\s+(%s)\b" % re.escape(st["ident"]), res.read(), re.M)
            if m is None:
                return None
            changers = []
            for c in st["changers"]:
                if c[0] == "remove":
                    changers.append(csig.ArgumentRemover(c[1]))
                elif c[0] == "add":
                    changers.append(csig.ArgumentAdder(c[1], c[2], c[3], c[4]))
                elif c[0] == "normalize":
                    changers.append(csig.ArgumentNormalizer())
                elif c[0] == "reorder":
                    changers.append(csig.ArgumentReorderer(c[1]))
                elif c[0] == "inline_default":
                    changers.append(csig.ArgumentDefaultInliner(c[1]))
            return csig.ChangeSignature(project, res, m.start(1)).get_changes(changers)
        if st["kind"] == "to_package":
            from rope.refactor import topackage

            if res.is_folder() or not res.name.endswith(".py") or res.name == "__init__.py":
                return None
            if res.parent.has_child(res.name[:-3]):
                return None
            return topackage.ModuleToPackage(project, res).get_changes()
    except exceptions.RopeError as e:
        LAST_REFUSAL[0] = repr(e)[:300]
        return None
    except Exception as e:  # internal errors on odd requests are C09's business
        LAST_REFUSAL[0] = repr(e)[:300]
        return None
    return None


LAST_REFUSAL = [None]


def gen_history_step(rng, model: HistoryModel, tree: TreeModel, classes, swarm, next_id, program=False):
    """Draw the next step of a history workload.  `tree` is model.current()."""
    w = swarm["weights"]
    choices = []
    choices += ["do"] * w.get("do", 6)
    if program:
        choices += ["refactor"] * w.get("refactor", 3)
    if model.undo:
        choices += ["undo"] * w.get("undo", 3) + ["undo_sel"] * w.get("undo_sel", 3)
        choices += ["undo_drop"] * w.get("undo_drop", 1) + ["undo_redo"] * w.get("undo_redo", 1)
    else:
        choices += ["undo"] * w.get("undo_empty", 1)
    choices += ["set_limit"] * w.get("set_limit", 0)
    choices += ["api"] * w.get("api", 0) + ["clear"] * w.get("clear", 0)
    if model.redo:
        choices += ["redo"] * w.get("redo", 3) + ["redo_sel"] * w.get("redo_sel", 2)
    else:
        choices += ["redo"] * w.get("redo_empty", 1)
    k = rng.choice(choices)
    if k == "do":
        rec, after = gen.gen_changeset(rng, tree, classes, swarm, next_id)
        return {"op": "do", "cs": rec}
    if k == "refactor":
        files = [p for p in tree.file_paths() if p.endswith(".py")]
        if not files:
            rec, after = gen.gen_changeset(rng, tree, classes, swarm, next_id)
            return {"op": "do", "cs": rec}
        if rng.random() < 0.4:
            mods = [p for p in files if not p.endswith("__init__.py")]
            pkgs = sorted({p.rsplit("/", 1)[0] for p in files if p.endswith("/__init__.py")})
            r = rng.random()
            if mods and r < 0.5:
                return {"op": "refactor", "kind": "rename_module", "path": rng.choice(mods),
                        "new": rng.choice(gen.NEW_IDENTS) + str(next_id), "id": next_id}
            if mods and pkgs and r < 0.8:
                return {"op": "refactor", "kind": "move_module", "path": rng.choice(mods), "dest": rng.choice(pkgs), "id": next_id}
            if mods:
                return {"op": "refactor", "kind": "to_package", "path": rng.choice(mods), "id": next_id}
        return {"op": "refactor", "kind": "rename", "path": rng.choice(files), "ident": rng.choice(gen.PROGRAM_IDENTS),
                "occ": rng.randrange(4), "new": rng.choice(gen.NEW_IDENTS) + str(next_id), "id": next_id,
                "docs": rng.random() < 0.2}
    if k == "set_limit":
        return {"op": "set_limit", "limit": rng.choice([0, 1, 2, 3, 5, 32])}
    if k == "clear":
        return {"op": "clear"}
    if k == "api":
        # the same kinds of change, made through the resource helper API
        op = gen.gen_op(rng, tree, classes, dict(swarm, bytes_p=0.0), None)
        if op[0] in ("edit", "mkdir", "mkfile", "move", "remove"):
            return {"op": "api", "call": op, "id": next_id}
        return {"op": "undo"}
    if k == "undo_sel":
        return {"op": "undo_sel", "i": rng.randrange(len(model.undo)), "drop": rng.random() < 0.2}
    if k == "redo_sel":
        return {"op": "redo_sel", "i": rng.randrange(len(model.redo))}
    return {"op": k}


class StepResult:
    __slots__ = ("kind", "skipped", "exc", "info")

    def __init__(self, kind, skipped=False, exc=None, info=None):
        self.kind, self.skipped, self.exc, self.info = kind, skipped, exc, info or {}


def exec_history_step(world: World, model: HistoryModel, st, out=None):
    """Apply one step to the real project and to the model.

    Returns StepResult.  Oracle comparisons are made by the caller (so that the
    same interpreter drives the never-closed twin in C12, the byte store in C16
    and the pre-crash history in C18).  Steps are total: a step whose model
    precondition fails is skipped on both sides."""
    from rope.base import exceptions

    world.use()
    world.clock.advance(1_000_000_000)
    p = world.project
    h = p.history
    op = st["op"]
    if op == "do":
        rec = st["cs"]
        if not rec["ops"] or not list(flat_ops(rec["ops"])):
            return StepResult(op, skipped=True, info={"why": "empty change set"})
        ignored_only = all(is_ignored_path(x) for x in touched_paths(rec["ops"]))
        # ignored files are not modelled: validate such a change set against
        # the real tree instead
        tree = TreeModel(world.snapshot()) if ignored_only else model.current()
        try:
            tree.apply_all(rec["ops"])
        except ModelError as e:
            return StepResult(op, skipped=True, info={"why": str(e)})
        cs = realize.realize(p, rec)
        try:
            p.do(cs)
        except Exception as e:
            return StepResult(op, exc=e, info={"model_ok": True, "has_remove": _has_remove(rec["ops"])})
        model.do({"id": rec["id"], "desc": rec["desc"], "ops": rec["ops"]})
        return StepResult(op)
    if op == "clear":
        h.clear()
        model.base = model.current()
        model._undo, model.redo = [], []
        return StepResult(op)
    if op == "api":
        call = st["call"]
        tree = model.current()
        try:
            tree.apply_all([call])
        except ModelError as e:
            return StepResult(op, skipped=True, info={"why": str(e)})
        k = call[0]
        try:
            desc = api_call(p, call)
        except _ApiSkip as e:
            return StepResult(op, skipped=True, info={"why": str(e)})
        except Exception as e:
            return StepResult(op, exc=e, info={"model_ok": True, "has_remove": k == "remove"})
        model.do({"id": st["id"], "desc": desc, "ops": [call]})
        return StepResult(op, info={"api": k})
    if op == "set_limit":
        # the configured limit may change while a history exists; it is
        # enforced when the next change is recorded
        p.prefs.set("max_history_items", st["limit"])
        model.limit = st["limit"]
        return StepResult(op)
    if op == "refactor":
        changes = compute_refactoring(p, st)
        if changes is None or not changes.changes:
            return StepResult(op, skipped=True, info={"why": "refused or empty"})
        ops = abstract_of(changes)
        desc = "rf%d" % st["id"]
        changes.description = desc
        tree = model.current()
        try:
            tree.apply_all(ops)
        except ModelError as e:
            return StepResult(op, skipped=True, info={"why": "model: " + str(e)})
        try:
            p.do(changes)
        except Exception as e:
            return StepResult(op, exc=e, info={"model_ok": True, "has_remove": False})
        model.do({"id": st["id"], "desc": desc, "ops": ops})
        return StepResult(op, info={"n_ops": len(list(flat_ops(ops))), "moves": sum(1 for o in flat_ops(ops) if o[0] == "move")})
    if op in ("undo", "undo_drop", "undo_sel"):
        if not model.undo:
            try:
                h.undo()
            except exceptions.HistoryError as e:
                return StepResult(op, exc=e, info={"empty": True, "refused": True})
            except Exception as e:
                return StepResult(op, exc=e, info={"empty": True, "refused": False})
            return StepResult(op, info={"empty": True, "refused": False, "returned": True})
        idx = None
        drop = op == "undo_drop" or bool(st.get("drop"))
        if op == "undo_sel":
            idx = st["i"] % len(model.undo)
        deps = HistoryModel.closure(model.undo, idx if idx is not None else len(model.undo) - 1)
        has_remove = any(_has_remove(r["ops"]) for r in deps)
        before = world.snapshot()
        lists_before = ([c.description for c in h.undo_list], [c.description for c in h.redo_list])
        try:
            if idx is None:
                undone = h.undo(drop=drop)
            else:
                undone = h.undo(change=h.undo_list[idx], drop=drop) if idx < len(h.undo_list) else None
        except Exception as e:
            after = world.snapshot()
            lists_after = ([c.description for c in h.undo_list], [c.description for c in h.redo_list])
            return StepResult(op, exc=e, info={
                "has_remove": has_remove, "deps": len(deps),
                # a failed undo of a single change set must leave everything as it was
                "single": len(deps) == 1,
                # (a selective undo has by then moved the chosen change set to the
                # end of the undo list: order is compared for plain undo only)
                "unchanged": _vis(before) == _vis(after) and (
                    lists_before == lists_after if idx is None
                    else (sorted(lists_before[0]), lists_before[1]) == (sorted(lists_after[0]), lists_after[1])),
                "diff": kernel.diff_trees(_vis(before), _vis(after)) if _vis(before) != _vis(after) else None,
            })
        model.undo_sel(idx, drop=drop)
        return StepResult(op, info={
            "deps_model": [r["desc"] for r in reversed(deps)],
            "deps_real": [c.description for c in undone] if undone is not None and not drop else None,
            "n": len(deps), "drop": drop,
        })
    if op in ("redo", "redo_sel"):
        if not model.redo:
            try:
                h.redo()
            except exceptions.HistoryError as e:
                return StepResult(op, exc=e, info={"empty": True, "refused": True})
            except Exception as e:
                return StepResult(op, exc=e, info={"empty": True, "refused": False})
            return StepResult(op, info={"empty": True, "refused": False, "returned": True})
        idx = None
        if op == "redo_sel":
            idx = st["i"] % len(model.redo)
        if not model.redo_feasible(idx):
            return StepResult(op, skipped=True, info={"why": "redo of a change whose prerequisite was dropped"})
        deps = HistoryModel.closure(model.redo, idx if idx is not None else len(model.redo) - 1)
        try:
            if idx is None:
                redone = h.redo()
            else:
                redone = h.redo(change=h.redo_list[idx]) if idx < len(h.redo_list) else None
        except Exception as e:
            return StepResult(op, exc=e, info={"deps": len(deps)})
        model.redo_sel(idx)
        return StepResult(op, info={
            "deps_model": [r["desc"] for r in reversed(deps)],
            "deps_real": [c.description for c in redone] if redone is not None else None,
            "n": len(deps),
        })
    if op == "undo_redo":
        if not model.undo:
            return StepResult(op, skipped=True)
        before = world.snapshot()
        last = model.undo[-1]
        if _has_remove(last["ops"]):
            return StepResult(op, skipped=True, info={"why": "removal"})
        try:
            h.undo()
            mid = world.snapshot()
            h.redo()
        except Exception as e:
            return StepResult(op, exc=e, info={"has_remove": False})
        after = world.snapshot()
        model._truncate()  # (the redo re-enters the undo list under the limit now in force)
        before = {k: v for k, v in before.items() if not is_ignored_path(k)}
        after = {k: v for k, v in after.items() if not is_ignored_path(k)}
        # model: undo then redo of the last change leaves lists as they were,
        # except that the redo list is what it was (redo pops what undo pushed)
        return StepResult(op, info={"same": before == after, "diff": kernel.diff_trees(before, after) if before != after else None,
                                    "mid_changed": mid != before})
    raise kernel.HarnessError("unknown step %r" % (st,))


def _vis(snap):
    """Without ignored files (outside the history's protection)."""
    return {k: v for k, v in snap.items() if not is_ignored_path(k)}


def _has_remove(ops):
    return any(o[0] == "remove" for o in flat_ops(ops))


def mirror_step(model, st):
    """Generation-time bookkeeping: apply a generated step to the model that drives
    further generation (execution keeps its own model)."""
    from .model import ModelError
    op = st["op"]
    if op == "do":
        model.do({"id": st["cs"]["id"], "desc": st["cs"]["desc"], "ops": st["cs"]["ops"]})
    elif op == "set_limit":
        model.limit = st["limit"]
    elif op == "clear":
        model.base = model.current()
        model._undo, model.redo = [], []
    elif op == "api":
        try:
            model.current().apply_all([st["call"]])
            model.do({"id": st["id"], "desc": "api%d" % st["id"], "ops": [st["call"]]})
        except ModelError:
            pass
    elif op in ("undo", "undo_drop") and model.undo:
        model.undo_sel(None, drop=op == "undo_drop")
    elif op == "undo_sel" and model.undo:
        model.undo_sel(st["i"] % len(model.undo), drop=bool(st.get("drop")))
    elif op == "redo" and model.redo and model.redo_feasible(None):
        model.redo_sel(None)
    elif op == "redo_sel" and model.redo and model.redo_feasible(st["i"] % len(model.redo)):
        model.redo_sel(st["i"] % len(model.redo))


class _ApiSkip(Exception):
    pass


def api_call(p, call, precheck=True):
    """One change made through the resource helper API (File.write, Folder.create_file /
    create_folder, Resource.move / remove) instead of an explicit ChangeSet.  Returns the
    description rope gives the change set it wraps the change in."""
    k = call[0]
    if k == "edit":
        f = p.get_file(call[1])
        if precheck and f.read() == call[2]:
            raise _ApiSkip("same text")  # File.write is a no-op then
        f.write(call[2])
        return "Writing file <%s>" % call[1]
    if k == "mkfile":
        parent, _, name = call[1].rpartition("/")
        p.get_folder(parent).create_file(name)
        return "Creating file <%s>" % call[1]
    if k == "mkdir":
        parent, _, name = call[1].rpartition("/")
        p.get_folder(parent).create_folder(name)
        return "Creating folder <%s>" % call[1]
    if k == "move":
        res = p.get_resource(call[1])
        parent, _, name = call[2].rpartition("/")
        # Resource.move(x): x names the new location, or an existing folder to move into
        dest_arg = parent if (name == res.name and len(call) > 4 and call[4]) else call[2]
        if dest_arg == call[2] and os.path.isdir(p._get_resource_path(dest_arg)):
            raise _ApiSkip("destination name is a folder")
        res.move(dest_arg)
        return "Moving <%s> to <%s>" % (call[1], dest_arg)
    if k == "remove":
        p.get_resource(call[1]).remove()
        return "Removing <%s>" % call[1]
    raise _ApiSkip("not an API change")
