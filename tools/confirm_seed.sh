#!/bin/bash
# usage: confirm_seed.sh <srcdir with patch.diff demo.py> <tag>
# Confirms a seeded change in a scratch worktree of /repo HEAD: demo passes on
# pristine, fails with the patch, the test suite still passes with the patch.
src=$1; tag=$2
wt=/tmp/confirm-$tag
git -C /repo worktree remove --force $wt 2>/dev/null
git -C /repo worktree add -q --detach $wt HEAD || exit 9
cd $wt
PYTHONPATH=$wt timeout 300 /venv/bin/python $src/demo.py >/tmp/confirm-$tag.pristine.log 2>&1; a=$?
if ! git apply $src/patch.diff 2>/tmp/confirm-$tag.apply.log; then
  if ! patch -p1 -s --no-backup-if-mismatch < $src/patch.diff >>/tmp/confirm-$tag.apply.log 2>&1; then
    echo "$tag APPLY-FAILED"; cd /; git -C /repo worktree remove --force $wt; exit 8
  fi
fi
PYTHONPATH=$wt timeout 300 /venv/bin/python $src/demo.py >/tmp/confirm-$tag.patched.log 2>&1; b=$?
timeout 1200 /venv/bin/python -m pytest -q -p no:cacheprovider --timeout=900 -n 4 ropetest >/tmp/confirm-$tag.tests.log 2>&1; c=$?
t=$(tail -1 /tmp/confirm-$tag.tests.log)
cd /; git -C /repo worktree remove --force $wt
echo "$tag demo_pristine=$a demo_patched=$b tests_rc=$c :: $t"
