#!/bin/bash
# Runs every registered quick check at the given seeds (default 0 1); evidence is written for the LAST seed run... so run seed 0 last.
cd "$(dirname "$0")/.."
seeds="${@:-1 0}"
rc=0
for sd in $seeds; do
  for p in C09 C10 C11 C12 C13 C16 C18; do
    out=$(VERIF_SEED=$sd ./check $p --tier quick 2>&1 | grep -v "^KNOWN-FINDING" | tail -1 | cut -c1-170)
    echo "seed=$sd $out"
    case "$out" in PASS*) ;; *) rc=1;; esac
  done
done
exit $rc
