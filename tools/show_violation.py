#!/venv/bin/python
"""usage: show_violation.py PROP SEED RUN [class-substring]  -- re-executes one run and prints its violations"""
import sys, os, json
sys.path.insert(0, os.path.dirname(os.path.dirname(os.path.abspath(__file__))))
from ropesim import kernel, runner
kernel.ensure_env()
prop, seed, run = sys.argv[1], int(sys.argv[2]), int(sys.argv[3])
flt = sys.argv[4] if len(sys.argv) > 4 else ""
eng = runner.load_engine(prop)
out = eng.run(kernel.derive_seed(seed, prop, run))
for v in out.violations:
    if flt in v["class"] + json.dumps(v["signature"]):
        print(json.dumps(v, indent=1, default=kernel._json_default)[:2500])
