#!/venv/bin/python
"""usage: store_seed.py <ID>r5 <n> <checks comma> -- copies a confirmed seeded change from /tmp/seed-out into /verif/seeded."""
import json, os, shutil, sys
rid, n, checks = sys.argv[1], sys.argv[2], sys.argv[3].split(",")
src = f"/tmp/seed-out/{rid}/{n}"
sid = f"{rid}-{n}"
dst = f"/verif/seeded/{sid}"
os.makedirs(dst, exist_ok=True)
for f in ("patch.diff", "demo.py", "notes.md"):
    shutil.copy(os.path.join(src, f), os.path.join(dst, f))
notes = open(os.path.join(src, "notes.md")).read()
first = " ".join(notes.split("\n\n")[0:2]).replace("\n", " ")[:600]
meta = {
    "id": sid, "property": rid[:3], "checks": checks, "expect": "caught",
    "origin": "independent sub-agent (round " + rid[-1] + "; asked for new code sites, less used API entry points and configurations), given only the property text, a scratch worktree and one-line summaries of the earlier changes to avoid",
    "needs": first,
    "confirmed": "tools/confirm_seed.sh in a scratch worktree of /repo HEAD: demo.py exits 0 unpatched, 1 with patch.diff; ropetest: 2104 passed with the patch",
    "rebased": False,
}
json.dump(meta, open(os.path.join(dst, "meta.json"), "w"), indent=1)
print("stored", sid)
