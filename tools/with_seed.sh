#!/bin/bash
# usage: with_seed.sh <seed-id> <check args...>   runs ./check against a scratch copy of /repo/rope with the seeded patch applied
id=$1; shift
d=/dev/shm/withseed-$id-$$
mkdir -p $d && rsync -a --exclude __pycache__ /repo/rope $d/ && (cd $d && patch -p1 -s --no-backup-if-mismatch < /verif/seeded/$id/patch.diff) || { echo "apply failed"; rm -rf $d; exit 9; }
cd /verif && VERIF_REPO=$d ./check "$@"; rc=$?
rm -rf $d
exit $rc
